package main

// Engine side of the harness API (package yae/zzverif/sv).

import (
	"fmt"
	"math"
	"strings"

	"golang.org/x/tools/go/ssa"
)

func (in *Interp) freshInput(name string, s Sort) string {
	n := in.inputSeen[name]
	in.inputSeen[name] = n + 1
	full := name
	if n > 0 {
		full = fmt.Sprintf("%s#%d", name, n)
	}
	t := in.ts.Var(full+"@"+s.String(), s)
	in.inputs = append(in.inputs, inputRec{Name: full, Sort: s, term: t})
	return full
}

func (in *Interp) input(nameV Value, s Sort) *Term {
	name, ok := nameV.(string)
	if !ok {
		panic(pathAbort{"harness: input name must be concrete"})
	}
	return in.ts.Var(in.freshInput(name, s)+"@"+s.String(), s)
}

func toBoolTerm(in *Interp, v Value) *Term {
	switch b := v.(type) {
	case bool:
		return in.ts.Bool(b)
	case *Term:
		return b
	}
	panic(fmt.Sprintf("engine: bool %T", v))
}

func boolOrTerm(t *Term) Value {
	if t.IsConst() {
		return t.IsTrue()
	}
	return t
}

func (in *Interp) classify(gp *GoPanic) string {
	if gp.rt != "" {
		if gp.class != "" {
			return gp.class
		}
		return "rt:other"
	}
	v := gp.val
	if ia, ok := v.(Iface); ok {
		if se, ok := ia.v.(*synthErr); ok {
			if se.runtime {
				if se.class != "" {
					return se.class
				}
				return "rt:other"
			}
			return "assert:" + leadingLiteral(se.msg)
		}
		switch s := ia.v.(type) {
		case string:
			return "panic:" + s
		case *Rope:
			return "panic:" + leadingLiteral(s)
		}
		// an error value defined by yae (has Error())
		if s, ok := in.stringerOf(in.curFrame, ia.t, ia.v); ok {
			return "assert:" + leadingLiteral(s)
		}
		return "panic:?" + fmt.Sprint(ia.t)
	}
	return "panic:?"
}

func leadingLiteral(v Value) string {
	switch s := v.(type) {
	case string:
		return s
	case *Rope:
		if len(s.chunks) > 0 && s.chunks[0].isLit() {
			return s.chunks[0].lit
		}
	}
	return ""
}

func (in *Interp) svCall(fr *Frame, name string, args []Value, fn *ssa.Function) Value {
	ts := in.ts
	switch name {
	case "Float64":
		return in.input(args[0], SF64)
	case "Float32":
		return in.input(args[0], SF32)
	case "Int", "Int64":
		return in.input(args[0], SBV(64))
	case "Byte":
		return in.input(args[0], SBV(8))
	case "Rune":
		return in.input(args[0], SBV(32))
	case "Bool":
		return in.input(args[0], SBool)
	case "Str":
		n := int(args[1].(int64))
		var bs []Value
		for k := 0; k < n; k++ {
			bs = append(bs, in.input(fmt.Sprintf("%s[%d]", args[0].(string), k), SBV(8)))
		}
		return ropeFromBytes(bs)
	case "Choice":
		n := int(args[1].(int64))
		nm := args[0].(string)
		k := in.choose(nm, n)
		return int64(k)
	case "Assume":
		in.assume(args[0])
		return nil
	case "Assert":
		in.assertion(args[0].(string), args[1])
		return nil
	case "Fail":
		in.assertion(args[0].(string), false)
		return nil
	case "Reach":
		in.reached[args[0].(string)] = true
		return nil
	case "Region":
		in.regions[args[0].(string)] = toBoolTerm(in, args[1])
		return nil
	case "CaptureStdout":
		n0 := len(in.stdout)
		in.callValue(fr, args[0], nil)
		var out Value = ""
		for _, s := range in.stdout[n0:] {
			out = strConcat(out, s)
		}
		return out
	case "Repeats":
		return int64(1)
	case "Thorough":
		return in.thorough
	case "MapOrder":
		in.mapOrder = int(args[0].(int64))
		return nil
	case "Note":
		in.note("harness: " + args[0].(string))
		return nil
	case "Stdout":
		var out Value = ""
		for _, s := range in.stdout {
			out = strConcat(out, s)
		}
		return out
	case "Same":
		a, b := in.lift(args[0], fn.Signature.Params().At(0).Type()), in.lift(args[1], fn.Signature.Params().At(1).Type())
		return boolOrTerm(ts.Eq(a, b))
	case "IsNaN":
		if f, ok := args[0].(float64); ok {
			return math.IsNaN(f)
		}
		return ts.Mk("fp.isNaN", SBool, args[0].(*Term))
	case "And", "Or":
		sl := args[0].(Slice)
		var xs []*Term
		for k := 0; k < sl.len; k++ {
			xs = append(xs, toBoolTerm(in, sl.arr.elems[sl.off+k].v))
		}
		if name == "And" {
			return boolOrTerm(ts.And(xs...))
		}
		return boolOrTerm(ts.Or(xs...))
	case "Implies":
		return boolOrTerm(ts.Implies(toBoolTerm(in, args[0]), toBoolTerm(in, args[1])))
	case "Iff":
		return boolOrTerm(ts.Eq(toBoolTerm(in, args[0]), toBoolTerm(in, args[1])))
	case "IteF":
		c := toBoolTerm(in, args[0])
		if c.IsConst() {
			if c.IsTrue() {
				return args[1]
			}
			return args[2]
		}
		ft := fn.Signature.Params().At(1).Type()
		return ts.Ite(c, in.lift(args[1], ft), in.lift(args[2], ft))
	case "IteI":
		c := toBoolTerm(in, args[0])
		if c.IsConst() {
			if c.IsTrue() {
				return args[1]
			}
			return args[2]
		}
		ft := fn.Signature.Params().At(1).Type()
		return ts.Ite(c, in.lift(args[1], ft), in.lift(args[2], ft))
	case "IteB":
		c := toBoolTerm(in, args[0])
		return boolOrTerm(ts.Ite(c, toBoolTerm(in, args[1]), toBoolTerm(in, args[2])))
	case "StrEq":
		return in.strEq(args[0], args[1])
	case "Outcome":
		return in.outcome(fr, args[0])
	case "Setup":
		key := args[0].(string)
		if v, ok := in.setups[in.harness+"|"+key]; ok {
			return v
		}
		in.logging = false
		in.setupCells, in.setupMaps = map[*Cell]bool{}, map[*Map]bool{}
		nt := len(in.trace)
		v := in.callValue(fr, args[1], nil)
		in.logging = true
		cells, maps := in.setupCells, in.setupMaps
		in.setupCells, in.setupMaps = nil, nil
		if len(in.trace) != nt {
			panic(pathAbort{"harness: sv.Setup(" + key + ") body made a decision"})
		}
		// the body must not have written anything this path had already
		// changed (the rollback would undo the body's write)
		for _, u := range in.undo {
			if cells[u.c] {
				panic(pathAbort{"harness: sv.Setup(" + key + ") wrote state the path had already modified"})
			}
		}
		for _, u := range in.mundo {
			if maps[u.m] {
				panic(pathAbort{"harness: sv.Setup(" + key + ") wrote a map the path had already modified"})
			}
		}
		in.setups[in.harness+"|"+key] = v
		return v
	case "Symbolic":
		return true
	case "Logf":
		if in.cfg.Verbose {
			fmt.Printf("  [harness] %s\n", ropeDesc(in.sprintf(fr, args[0], args[1].(Slice))))
		}
		return nil
	case "Event":
		// engine-observed events so far on this path (cast events etc.)
		return int64(len(in.events))
	case "Steps":
		return int64(in.steps)
	case "Tick":
		return nil
	case "MoreFuel":
		// a harness that knows one of its paths is long (a 64 KiB program) asks
		// for a larger unwinding bound for this path; still a bound
		if n, ok := args[0].(int64); ok && n > 0 && n <= 2_000_000_000 {
			in.fuel += int(n)
		}
		return nil
	case "Cost":
		s0 := in.steps
		in.callValue(fr, args[0], nil)
		return int64(in.steps - s0)
	case "ConcreteInt":
		// case-split a symbolic int over [lo,hi]
		t, ok := args[0].(*Term)
		if !ok {
			return args[0]
		}
		lo, hi := args[1].(int64), args[2].(int64)
		n := int(hi - lo + 1)
		k := in.branch(n, "", func(k int) *Term { return ts.Eq(t, ts.BV(64, uint64(lo+int64(k)))) })
		return lo + int64(k)
	}
	panic(pathAbort{"harness: unknown sv." + name})
}

func (in *Interp) outcome(fr *Frame, f Value) (res Value) {
	defer func() {
		if r := recover(); r != nil {
			if f, ok := r.(fatalStack); ok {
				in.unwinding = false
				res = "fatal:" + f.why
				return
			}
			gp, ok := r.(*GoPanic)
			if !ok {
				panic(r)
			}
			res = in.classify(gp)
			if res == "cast" {
				in.castSeen++
			}
			if len(in.events) < 20 {
				in.events = append(in.events, "outcome: "+res.(string)+" | "+truncate(ropeDesc(in.panicText(gp)), 200)+" @ "+in.where())
			}
		}
	}()
	savedDepth := in.depth
	savedFrame := in.curFrame
	defer func() { in.depth = savedDepth; in.curFrame = savedFrame }()
	in.callValue(fr, f, nil)
	return "ok"
}

// assertion implements sv.Assert with known-finding regions.
func (in *Interp) assertion(id string, cond Value) {
	ts := in.ts
	c := toBoolTerm(in, cond)
	in.results.Asserts[id]++
	if c.IsTrue() {
		return
	}
	neg := ts.Not(c)
	// known regions applicable to (harness, assert) on this path
	var regs []*Term
	var regNames []*KnownFinding
	for _, kf := range in.cfg.Known {
		if kf.Harness != in.harness || kf.Assert != id || kf.Fixed != "" {
			continue
		}
		if !in.choicesMatch(kf.Choices) {
			continue
		}
		if kf.Region == "" {
			regs = append(regs, ts.Bool(true))
			regNames = append(regNames, kf)
			continue
		}
		if r, ok := in.regions[kf.Region]; ok {
			regs = append(regs, r)
			regNames = append(regNames, kf)
		}
	}
	outside := []*Term{neg}
	for _, r := range regs {
		outside = append(outside, ts.Not(r))
	}
	q := ts.And(outside...)
	if !q.IsFalse() {
		r := in.check(q, true)
		in.results.AssertQueries++
		switch r.Res {
		case "sat":
			if m := in.refineUF(q, r.Model); m != nil {
				in.events = append(in.events, "stub results computed natively for this counterexample (ufrefine)")
				r.Model = m
			}
			in.violation(id, r.Model, "")
			in.results.lastNewViolation = in.harness + "|" + id
		case "unknown":
			in.results.inconclusive("solver unknown on assertion " + id + " " + r.Err)
		}
	}
	for i, rg := range regs {
		r := in.check(ts.And(neg, rg), true)
		in.results.AssertQueries++
		if r.Res == "sat" {
			in.violation(id, r.Model, regNames[i].ID)
		} else if r.Res == "unknown" {
			in.results.inconclusive("solver unknown on known-finding region " + regNames[i].ID)
		}
	}
	// continue under the assertion
	if c.IsFalse() {
		if len(regs) > 0 && in.results.lastNewViolation != in.harness+"|"+id {
			// the failure is a recorded finding: keep going, so that a different
			// violation further down the same path is still reported
			return
		}
		panic(pathEnd{"assert failed"})
	}
	in.assume(c)
}

func (in *Interp) choicesMatch(want map[string]int) bool {
	for name, k := range want {
		found := false
		for _, d := range in.trace {
			if d.name == name {
				found = true
				if d.k != k {
					return false
				}
			}
		}
		if !found {
			return false
		}
	}
	return true
}

func (in *Interp) violation(id string, model map[string]uint64, known string) {
	w := in.witness(id, model)
	in.results.addViolation(in.harness, id, w, known)
}

func describeBits(s Sort, bits uint64) string {
	switch s {
	case SBool:
		if bits == 1 {
			return "true"
		}
		return "false"
	case SF64:
		return fmt.Sprintf("%v", math.Float64frombits(bits))
	case SF32:
		return fmt.Sprintf("%v", math.Float32frombits(uint32(bits)))
	}
	return fmt.Sprintf("%d", signExt(bits, s.Width()))
}

func (in *Interp) witness(id string, model map[string]uint64) *Witness {
	w := &Witness{Harness: in.harness, Assert: id, Inputs: map[string]WitnessInput{}, Events: append([]string(nil), in.events...)}
	for _, inp := range in.inputs {
		bits := model[inp.term.name]
		w.Inputs[inp.Name] = WitnessInput{Sort: inp.Sort.String(), Bits: fmt.Sprintf("%#x", bits), Pretty: describeBits(inp.Sort, bits)}
	}
	w.Choices = append(w.Choices, in.fixedLog...)
	for _, d := range in.trace {
		w.Decisions = append(w.Decisions, d.k)
		if d.name != "" && !strings.HasPrefix(d.name, "maporder") {
			w.Choices = append(w.Choices, WitnessChoice{Name: d.name, K: d.k, N: d.n})
		}
	}
	return w
}
