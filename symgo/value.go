package main

import (
	"fmt"
	"go/types"
	"strconv"
	"strings"

	"golang.org/x/tools/go/ssa"
)

// Value is one of:
//
//	bool, int64 (every integer type; unsigned stored as bit pattern), float64
//	(float32 values are kept rounded), string, *Rope (string with symbolic
//	parts), *Term (symbolic scalar), Ptr, *Struct, *Array, Slice, *Map, Iface,
//	*Closure, *ssa.Builtin, Tuple, *mapIter, *strIter, Host, nil (nil func).
type Value interface{}

type Cell struct {
	v      Value
	parent *Cell // cell holding the aggregate this cell is a field/element of
	idx    int
	id     int // lazily assigned address
}

type Struct struct {
	typ    types.Type
	fields []*Cell
}
type Array struct {
	elems []*Cell
}

// Ptr is a pointer to a cell. view != nil marks the result of an
// unsafe.Pointer cast to *view where the pointee is not (inside) a view
// struct: only field 0 may be touched through it.
type Ptr struct {
	c    *Cell
	view types.Type
}
type Slice struct {
	arr           *Array
	off, len, cap int
}
type MapEntry struct {
	k, v    Value
	deleted bool
}
type Map struct {
	epoch   int // path epoch in which this map was created or last snapshotted
	entries []*MapEntry
	idx     map[string]int // concrete-key index
	symKeys int            // number of live entries with non-concrete keys
	live    int
}
type Iface struct {
	t types.Type
	v Value
}
type Closure struct {
	fn  *ssa.Function
	env []Value
	// intrinsic-backed function value
	intr string
	recv Value
}
type Tuple []Value
type Host struct{ v interface{} } // opaque native object (e.g. *regexp.Regexp)

type GoPanic struct {
	val   Value  // panic(value)
	rt    string // runtime error text if runtime panic
	class string // rt:index rt:nil rt:divide rt:typeassert rt:other cast
}

func (p *GoPanic) String() string {
	if p.rt != "" {
		return "runtime error: " + p.rt
	}
	return fmt.Sprint(p.val)
}

// signals that end a path (not Go panics of the program under test)
type pathEnd struct{ why string }      // normal early end (assume false, infeasible)
type pathAbort struct{ reason string } // inconclusive: unsupported / fuel / undecided

type undoRec struct {
	c   *Cell
	old Value
}
type mapUndo struct {
	m       *Map
	entries []*MapEntry
	idx     map[string]int
	symKeys int
	live    int
}

func (in *Interp) setCell(c *Cell, v Value) {
	if in.logging {
		in.undo = append(in.undo, undoRec{c, c.v})
	} else if in.setupCells != nil {
		in.setupCells[c] = true
	}
	c.v = v
}

func (in *Interp) saveMap(m *Map) {
	if !in.logging {
		if in.setupMaps != nil {
			in.setupMaps[m] = true
		}
		return
	}
	// One snapshot per map and path is enough (the only rollback is the one
	// to the start of the path), and a map created on this path needs none:
	// snapshotting on every store made filling a map quadratic.
	if m.epoch == in.epoch {
		return
	}
	m.epoch = in.epoch
	ents := make([]*MapEntry, len(m.entries))
	for i, e := range m.entries {
		cp := *e
		ents[i] = &cp
	}
	idx := make(map[string]int, len(m.idx))
	for k, v := range m.idx {
		idx[k] = v
	}
	in.mundo = append(in.mundo, mapUndo{m, ents, idx, m.symKeys, m.live})
}

func (in *Interp) rollback(cm, mm int) {
	for i := len(in.undo) - 1; i >= cm; i-- {
		in.undo[i].c.v = in.undo[i].old
	}
	in.undo = in.undo[:cm]
	for i := len(in.mundo) - 1; i >= mm; i-- {
		u := in.mundo[i]
		u.m.entries, u.m.idx, u.m.symKeys, u.m.live = u.entries, u.idx, u.symKeys, u.live
	}
	in.mundo = in.mundo[:mm]
}

func newCell(v Value, parent *Cell, idx int) *Cell { return &Cell{v: v, parent: parent, idx: idx} }

func zero(t types.Type) Value {
	switch u := t.Underlying().(type) {
	case *types.Basic:
		switch {
		case u.Info()&types.IsBoolean != 0:
			return false
		case u.Info()&types.IsInteger != 0:
			return int64(0)
		case u.Info()&types.IsFloat != 0:
			return float64(0)
		case u.Info()&types.IsString != 0:
			return ""
		case u.Kind() == types.UnsafePointer:
			return Ptr{}
		case u.Kind() == types.UntypedNil:
			return nil
		}
		panic("zero basic " + u.String())
	case *types.Pointer:
		return Ptr{}
	case *types.Struct:
		if n, ok := t.(*types.Named); ok && n.Obj().Name() == "Value" && n.Obj().Pkg() != nil && n.Obj().Pkg().Path() == "reflect" {
			return &RVal{}
		}
		return newStruct(t)
	case *types.Array:
		a := &Array{}
		for i := 0; i < int(u.Len()); i++ {
			a.elems = append(a.elems, newCell(zero(u.Elem()), nil, i))
		}
		return a
	case *types.Slice:
		return Slice{}
	case *types.Map:
		return (*Map)(nil)
	case *types.Interface:
		return Iface{}
	case *types.Signature:
		return (*Closure)(nil)
	case *types.Chan:
		return nil
	case *types.Tuple:
		var tu Tuple
		for i := 0; i < u.Len(); i++ {
			tu = append(tu, zero(u.At(i).Type()))
		}
		return tu
	}
	panic("zero " + t.String())
}

func newStruct(t types.Type) *Struct {
	st := t.Underlying().(*types.Struct)
	s := &Struct{typ: t}
	for i := 0; i < st.NumFields(); i++ {
		s.fields = append(s.fields, newCell(zero(st.Field(i).Type()), nil, i))
	}
	return s
}

// fixParents sets parent links for aggregates stored in cell c
func fixParents(c *Cell) {
	switch a := c.v.(type) {
	case *Struct:
		for i, f := range a.fields {
			f.parent, f.idx = c, i
			fixParents(f)
		}
	case *Array:
		for i, e := range a.elems {
			e.parent, e.idx = c, i
			fixParents(e)
		}
	}
}

func copyVal(v Value) Value {
	switch a := v.(type) {
	case *Struct:
		n := &Struct{typ: a.typ, fields: make([]*Cell, len(a.fields))}
		for i, f := range a.fields {
			n.fields[i] = newCell(copyVal(f.v), nil, i)
		}
		return n
	case *Array:
		n := &Array{elems: make([]*Cell, len(a.elems))}
		for i, e := range a.elems {
			n.elems[i] = newCell(copyVal(e.v), nil, i)
		}
		return n
	}
	return v
}

func rtPanic(class, msg string) *GoPanic { return &GoPanic{rt: msg, class: class} }

func (in *Interp) load(p Ptr) Value {
	if p.c == nil {
		panic(rtPanic("rt:nil", "invalid memory address or nil pointer dereference"))
	}
	if p.view != nil {
		in.castEvent(fmt.Sprintf("load of %s through a pointer to %s", p.view, describeCell(p.c)))
	}
	return copyVal(p.c.v)
}
func (in *Interp) store(p Ptr, v Value) {
	if p.c == nil {
		panic(rtPanic("rt:nil", "invalid memory address or nil pointer dereference"))
	}
	if p.view != nil {
		in.castEvent(fmt.Sprintf("store of %s through a pointer to %s", p.view, describeCell(p.c)))
	}
	switch v.(type) {
	case *Struct, *Array:
		in.setCell(p.c, copyVal(v))
		fixParents(p.c)
	default:
		in.setCell(p.c, v)
	}
}

func describeCell(c *Cell) string {
	if s, ok := c.v.(*Struct); ok {
		d := s.typ.String()
		if c.parent != nil {
			if ps, ok := c.parent.v.(*Struct); ok {
				d += " inside " + ps.typ.String()
			}
		}
		return d
	}
	return fmt.Sprintf("%T", c.v)
}

func (in *Interp) cellID(c *Cell) int {
	if c.id == 0 {
		in.nextAddr++
		c.id = in.nextAddr
	}
	return c.id
}

// address of a cell: nested field 0 shares its parent's address, as in Go.
func (in *Interp) addrOf(c *Cell) int64 {
	off := 0
	for c.parent != nil {
		if _, ok := c.parent.v.(*Struct); ok && c.idx == 0 {
			c = c.parent
			continue
		}
		off += 8 * c.idx // distinct, monotone; not the real layout
		off += 1
		c = c.parent
	}
	return int64(in.cellID(c))*(1<<16) + int64(off) + 0xc000000000
}

// keyOf renders a concrete comparable value canonically; ok=false if it has
// symbolic parts.
func (in *Interp) keyOf(v Value) (string, bool) {
	switch a := v.(type) {
	case string:
		return "s:" + a, true
	case int64:
		return "i:" + strconv.FormatInt(a, 10), true
	case bool:
		if a {
			return "b:1", true
		}
		return "b:0", true
	case float64:
		return "f:" + strconv.FormatFloat(a, 'g', -1, 64), true
	case Ptr:
		if a.c == nil {
			return "p:nil", true
		}
		return "p:" + strconv.Itoa(in.cellID(a.c)), true
	case *Struct:
		var sb strings.Builder
		sb.WriteString("{")
		for _, f := range a.fields {
			k, ok := in.keyOf(f.v)
			if !ok {
				return "", false
			}
			sb.WriteString(k)
			sb.WriteByte(',')
		}
		sb.WriteString("}")
		return sb.String(), true
	case *Array:
		var sb strings.Builder
		sb.WriteString("[")
		for _, f := range a.elems {
			k, ok := in.keyOf(f.v)
			if !ok {
				return "", false
			}
			sb.WriteString(k)
			sb.WriteByte(',')
		}
		sb.WriteString("]")
		return sb.String(), true
	case Iface:
		if a.t == nil {
			return "I:nil", true
		}
		k, ok := in.keyOf(a.v)
		return "I:" + a.t.String() + ":" + k, ok
	case *Term, *Rope:
		return "", false
	case *RType:
		// reflect.Type identity is Go type identity
		return "rt:" + a.t.String(), true
	case nil:
		return "nil", true
	case *Closure:
		if a == nil {
			return "fn:nil", true
		}
	}
	panic(pathAbort{fmt.Sprintf("unsupported: map/interface key of %T", v)})
}
