package main

import (
	"bufio"
	"fmt"
	"io"
	"os"
	"os/exec"
	"sort"
	"strings"
	"sync"
	"time"
)

// Solver drives one SMT solver process over a pipe. Every query is
// (push) assertions (check-sat) [get-value] (pop); term nodes are sent once
// per epoch as define-fun at level 0.
type Solver struct {
	kind      string // z3 | z3-new | cvc5
	fresh     bool   // (reset) before every query instead of push/pop
	timeoutMs int
	cmd       *exec.Cmd
	in        io.WriteCloser
	out       *bufio.Reader
	epoch     int
	defined   map[*Term]int // term -> epoch in which THIS solver defined it (several solvers share the terms)
	nDefs     int

	// stats
	Queries  int
	Sat      int
	Unsat    int
	Unknown  int
	Errors   int
	Dur      time.Duration
	MaxQuery time.Duration
	log      io.Writer // optional query log
}

var solverEpochCounter = 0

var epochMu sync.Mutex
var epochCounter int

// epochs are unique across solvers so that one term can be defined in several
func nextEpoch() int {
	epochMu.Lock()
	defer epochMu.Unlock()
	epochCounter++
	return epochCounter
}

// rlimitPerMs: z3 resource units granted per millisecond of nominal time-out;
// wallSlack: how much longer than the nominal time-out a query may run on a
// loaded machine before the wall-clock backstop ends it
const (
	rlimitPerMs = 8000
	wallSlack   = 8
)

func newSolver(kind string, timeoutMs int, fresh bool) *Solver {
	s := &Solver{kind: kind, timeoutMs: timeoutMs, fresh: fresh}
	s.start()
	return s
}

func (s *Solver) start() {
	var cmd *exec.Cmd
	switch s.kind {
	case "z3", "z3-new":
		// The bound on a query is z3's deterministic resource limit (rlimit,
		// per check-sat; measured here: about 8 million units per second on an
		// idle core), so that the verdict does not depend on how busy the
		// machine is. The wall-clock limit is only a backstop, several times
		// longer.
		cmd = exec.Command(s.kind, "-in", fmt.Sprintf("-t:%d", s.timeoutMs*wallSlack))
	case "cvc5":
		cmd = exec.Command("cvc5", "--incremental", "--lang", "smt2", "--produce-models", fmt.Sprintf("--tlimit-per=%d", s.timeoutMs*3))
	default:
		panic("solver kind " + s.kind)
	}
	in, err := cmd.StdinPipe()
	if err != nil {
		panic(err)
	}
	outp, err := cmd.StdoutPipe()
	if err != nil {
		panic(err)
	}
	cmd.Stderr = cmd.Stdout
	if err := cmd.Start(); err != nil {
		panic(err)
	}
	s.cmd, s.in, s.out = cmd, in, bufio.NewReaderSize(outp, 1<<16)
	s.epoch = nextEpoch()
	s.defined = map[*Term]int{}
	s.nDefs = 0
	s.send("(set-option :print-success false)")
	if s.kind == "cvc5" {
		s.send("(set-logic ALL)")
	} else {
		s.send("(set-option :produce-models true)")
		s.send(fmt.Sprintf("(set-option :rlimit %d)", s.timeoutMs*rlimitPerMs))
	}
}

func (s *Solver) Close() {
	if s.cmd != nil {
		s.in.Close()
		s.cmd.Process.Kill()
		s.cmd.Wait()
		s.cmd = nil
	}
}

func (s *Solver) restart() {
	s.Close()
	s.start()
}

func (s *Solver) send(line string) {
	if s.log != nil {
		fmt.Fprintln(s.log, line)
	}
	io.WriteString(s.in, line)
	io.WriteString(s.in, "\n")
}

func (s *Solver) define(t *Term) {
	if s.defined == nil {
		s.defined = map[*Term]int{}
	}
	if s.defined[t] == s.epoch || t.op == "const" {
		return
	}
	// iterative post-order
	type fr struct {
		t *Term
		i int
	}
	st := []fr{{t, 0}}
	for len(st) > 0 {
		top := &st[len(st)-1]
		if s.defined[top.t] == s.epoch || top.t.op == "const" {
			st = st[:len(st)-1]
			continue
		}
		if top.i < len(top.t.args) {
			a := top.t.args[top.i]
			top.i++
			if s.defined[a] != s.epoch && a.op != "const" {
				st = append(st, fr{a, 0})
			}
			continue
		}
		n := top.t
		if n.op == "var" {
			s.send(fmt.Sprintf("(declare-const |%s| %s)", n.name, n.sort.SMT()))
		} else {
			s.send(fmt.Sprintf("(define-fun t!%d () %s %s)", n.id, n.sort.SMT(), n.bodySMT()))
		}
		s.defined[n] = s.epoch
		s.nDefs++
		st = st[:len(st)-1]
	}
}

// readSexpr reads one atom or balanced s-expression from the solver.
func (s *Solver) readSexpr() (string, error) {
	var sb strings.Builder
	depth := 0
	started := false
	inBar, inStr := false, false
	for {
		c, err := s.out.ReadByte()
		if err != nil {
			return sb.String(), err
		}
		if !started {
			if c == ' ' || c == '\n' || c == '\r' || c == '\t' {
				continue
			}
			started = true
		}
		sb.WriteByte(c)
		switch {
		case inBar:
			if c == '|' {
				inBar = false
			}
		case inStr:
			if c == '"' {
				inStr = false
			}
		case c == '|':
			inBar = true
		case c == '"':
			inStr = true
		case c == '(':
			depth++
		case c == ')':
			depth--
			if depth == 0 {
				return sb.String(), nil
			}
		case c == '\n' || c == ' ':
			if depth == 0 {
				return strings.TrimSpace(sb.String()), nil
			}
		}
	}
}

type Result struct {
	Res   string // sat | unsat | unknown
	Model map[string]uint64
	Err   string
}

// Check decides the conjunction of asserts. If wantModel and the answer is
// sat, the model of every variable occurring in the assertions (plus extra)
// is returned.
func (s *Solver) Check(asserts []*Term, wantModel bool, extra []*Term) Result {
	t0 := time.Now()
	defer func() {
		d := time.Since(t0)
		s.Dur += d
		if d > s.MaxQuery {
			s.MaxQuery = d
		}
	}()
	s.Queries++
	if s.fresh {
		// a self-contained problem after (reset): z3's non-incremental
		// pipeline decides some floating-point queries in a second that the
		// incremental core selected by (push)/(pop) does not finish
		s.send("(reset)")
		if s.kind == "cvc5" {
			s.send("(set-logic ALL)")
			s.send("(set-option :produce-models true)")
		} else {
			s.send("(set-option :produce-models true)")
			s.send(fmt.Sprintf("(set-option :rlimit %d)", s.timeoutMs*rlimitPerMs))
		}
		s.epoch = nextEpoch()
		s.defined = map[*Term]int{}
	} else if s.nDefs > 200000 {
		s.restart()
	}
	for _, a := range asserts {
		s.define(a)
	}
	for _, a := range extra {
		s.define(a)
	}
	if !s.fresh {
		s.send("(push 1)")
	}
	for _, a := range asserts {
		if a.IsTrue() {
			continue
		}
		s.send("(assert " + a.leafSMT() + ")")
	}
	s.send("(check-sat)")
	type rd struct {
		s   string
		err error
	}
	ch := make(chan rd, 1)
	go func() {
		r, err := s.readSexpr()
		ch <- rd{r, err}
	}()
	var line string
	select {
	case r := <-ch:
		if r.err != nil {
			s.Errors++
			s.restart()
			return Result{Res: "unknown", Err: "solver died: " + r.err.Error() + " " + r.s}
		}
		line = r.s
	case <-time.After(time.Duration(s.timeoutMs*wallSlack)*time.Millisecond + 30*time.Second):
		s.Errors++
		s.restart()
		s.Unknown++
		return Result{Res: "unknown", Err: "watchdog timeout"}
	}
	res := Result{Res: line}
	switch line {
	case "sat":
		s.Sat++
		if wantModel {
			vars := map[string]*Term{}
			seen := map[int]bool{}
			for _, a := range asserts {
				a.Vars(seen, vars)
			}
			for _, a := range extra {
				a.Vars(seen, vars)
			}
			names := make([]string, 0, len(vars))
			for n := range vars {
				names = append(names, n)
			}
			sort.Strings(names)
			res.Model = map[string]uint64{}
			for _, n := range names {
				s.send("(get-value (|" + n + "|))")
				out, err := s.readSexpr()
				if err != nil || strings.Contains(out, "(error") {
					s.Errors++
					res.Err = "get-value: " + out
					break
				}
				// ((|n| value))
				inner := strings.TrimSpace(out)
				inner = strings.TrimPrefix(inner, "((")
				inner = strings.TrimSuffix(inner, "))")
				// drop the name
				var val string
				if strings.HasPrefix(inner, "|") {
					k := strings.Index(inner[1:], "|")
					val = strings.TrimSpace(inner[k+2:])
				} else {
					k := strings.IndexAny(inner, " \n")
					val = strings.TrimSpace(inner[k+1:])
				}
				if strings.HasPrefix(val, "(") && !strings.HasSuffix(val, ")") {
					val += ")"
				}
				bits, perr := parseModelValue(val, vars[n].sort)
				if perr != nil {
					s.Errors++
					res.Err = "model parse: " + perr.Error()
					break
				}
				res.Model[n] = bits
			}
		}
	case "unsat":
		s.Unsat++
	case "unknown", "timeout":
		res.Res = "unknown"
		s.Unknown++
	default:
		// error or garbage: inconclusive, resync by restarting
		s.Errors++
		s.Unknown++
		res = Result{Res: "unknown", Err: "solver said: " + line}
		if os.Getenv("SYMGO_SOLVERDBG") != "" {
			fmt.Fprintf(os.Stderr, "[solver %s] %s\n", s.kind, truncate(line, 400))
		}
		s.restart()
		return res
	}
	if !s.fresh {
		s.send("(pop 1)")
	}
	return res
}

// standaloneSMT renders a query as a self-contained SMT-LIB2 script.
func standaloneSMT(asserts []*Term) string {
	var sb strings.Builder
	sb.WriteString("(set-logic ALL)\n")
	done := map[int]bool{}
	var walk func(t *Term)
	walk = func(t *Term) {
		if done[t.id] || t.op == "const" {
			return
		}
		done[t.id] = true
		for _, a := range t.args {
			walk(a)
		}
		if t.op == "var" {
			fmt.Fprintf(&sb, "(declare-const |%s| %s)\n", t.name, t.sort.SMT())
		} else {
			fmt.Fprintf(&sb, "(define-fun t!%d () %s %s)\n", t.id, t.sort.SMT(), t.bodySMT())
		}
	}
	for _, a := range asserts {
		walk(a)
	}
	for _, a := range asserts {
		fmt.Fprintf(&sb, "(assert %s)\n", a.leafSMT())
	}
	sb.WriteString("(check-sat)\n")
	return sb.String()
}
