package main

// Model of the parts of package sync (and sync/atomic) that a sequential
// executor can give exact meaning to: there is one thread, so locks are
// no-ops, Once is a flag and sync.Map is a map. Caches keyed by sync.Map are
// what a "performance" change to the code under test typically adds; without
// this model such a change would only make the run inconclusive.
//
// State lives inside the modelled struct itself (written through setCell, so
// the per-path undo log rolls it back): sync.Map keeps an engine map in its
// first map-typed field, sync.Once its flag in its first field.

import (
	"go/types"
	"strings"
)

func structCell(p Ptr) *Struct {
	if p.c == nil {
		panic(rtPanic("rt:nil", "invalid memory address or nil pointer dereference"))
	}
	st, ok := p.c.v.(*Struct)
	if !ok {
		panic(pathAbort{"unsupported: sync object that is not a struct"})
	}
	return st
}

// lockCell: where a Mutex / RWMutex keeps "held" - the first integer word
// reached through first fields (state int32; RWMutex{w Mutex; ...})
func lockCell(p Ptr) *Cell {
	st := structCell(p)
	c := st.fields[0]
	for {
		s, ok := c.v.(*Struct)
		if !ok {
			return c
		}
		c = s.fields[0]
	}
}

type poolItems []Value

func poolCell(st *Struct) *Cell {
	sty := st.typ.Underlying().(*types.Struct)
	for i := 0; i < sty.NumFields(); i++ {
		if b, ok := sty.Field(i).Type().Underlying().(*types.Basic); ok && b.Kind() == types.UnsafePointer {
			return st.fields[i]
		}
	}
	panic(pathAbort{"unsupported: layout of sync.Pool"})
}

func (in *Interp) syncMap(p Ptr, create bool) (*Map, *Cell) {
	st := structCell(p)
	sty := st.typ.Underlying().(*types.Struct)
	for i := 0; i < sty.NumFields(); i++ {
		if _, ok := sty.Field(i).Type().Underlying().(*types.Map); ok {
			c := st.fields[i]
			m, _ := c.v.(*Map)
			if m == nil && create {
				m = &Map{idx: map[string]int{}, epoch: in.epoch}
				in.setCell(c, m)
			}
			return m, c
		}
	}
	panic(pathAbort{"unsupported: layout of sync.Map"})
}

func (in *Interp) syncIntrinsic(fr *Frame, name string, args []Value) (Value, bool) {
	switch name {
	case "(*sync.Mutex).Lock", "(*sync.RWMutex).Lock":
		// one thread: a lock that is already held will never be released -
		// natively the caller blocks for good
		c := lockCell(args[0].(Ptr))
		if held, _ := c.v.(int64); held != 0 {
			in.events = append(in.events, "fatal: deadlock - Lock of a mutex that is already held (left locked by an earlier call) at "+in.where())
			in.unwinding = true
			panic(fatalStack{"deadlock"})
		}
		in.setCell(c, int64(1))
		return nil, true
	case "(*sync.Mutex).Unlock", "(*sync.RWMutex).Unlock":
		c := lockCell(args[0].(Ptr))
		if held, _ := c.v.(int64); held == 0 {
			in.events = append(in.events, "fatal: sync: unlock of unlocked mutex at "+in.where())
			in.unwinding = true
			panic(fatalStack{"unlock-of-unlocked-mutex"})
		}
		in.setCell(c, int64(0))
		return nil, true
	case "(*sync.RWMutex).RLock":
		c := lockCell(args[0].(Ptr))
		if held, _ := c.v.(int64); held == 1 {
			in.events = append(in.events, "fatal: deadlock - RLock of a mutex that is write-locked at "+in.where())
			in.unwinding = true
			panic(fatalStack{"deadlock"})
		}
		return nil, true
	case "(*sync.RWMutex).RUnlock":
		return nil, true
	case "(*sync.Mutex).TryLock", "(*sync.RWMutex).TryLock":
		c := lockCell(args[0].(Ptr))
		if held, _ := c.v.(int64); held != 0 {
			return false, true
		}
		in.setCell(c, int64(1))
		return true, true
	case "(*sync.RWMutex).TryRLock":
		return true, true
	case "(*sync.Once).Do":
		st := structCell(args[0].(Ptr))
		// the flag lives in the innermost first field (done atomic.Uint32{_; v})
		c := st.fields[0]
		for {
			s, ok := c.v.(*Struct)
			if !ok {
				break
			}
			c = s.fields[len(s.fields)-1]
		}
		if d, _ := c.v.(int64); d != 0 {
			return nil, true
		}
		in.setCell(c, int64(1))
		in.callValue(fr, args[1], nil)
		return nil, true
	case "(*sync.Map).Load":
		m, _ := in.syncMap(args[0].(Ptr), false)
		if e, ok := in.mapFind(m, args[1]); ok {
			return Tuple{copyVal(e.v), true}, true
		}
		return Tuple{Iface{}, false}, true
	case "(*sync.Map).Store":
		m, _ := in.syncMap(args[0].(Ptr), true)
		in.mapPut(m, args[1], args[2])
		return nil, true
	case "(*sync.Map).LoadOrStore":
		m, _ := in.syncMap(args[0].(Ptr), true)
		if e, ok := in.mapFind(m, args[1]); ok {
			return Tuple{copyVal(e.v), true}, true
		}
		in.mapPut(m, args[1], args[2])
		return Tuple{args[2], false}, true
	case "(*sync.Map).LoadAndDelete":
		m, _ := in.syncMap(args[0].(Ptr), false)
		if e, ok := in.mapFind(m, args[1]); ok {
			v := copyVal(e.v)
			in.mapDelete(m, args[1])
			return Tuple{v, true}, true
		}
		return Tuple{Iface{}, false}, true
	case "(*sync.Map).Delete":
		m, _ := in.syncMap(args[0].(Ptr), false)
		in.mapDelete(m, args[1])
		return nil, true
	case "(*sync.Map).Swap":
		m, _ := in.syncMap(args[0].(Ptr), true)
		if e, ok := in.mapFind(m, args[1]); ok {
			old := copyVal(e.v)
			in.mapPut(m, args[1], args[2])
			return Tuple{old, true}, true
		}
		in.mapPut(m, args[1], args[2])
		return Tuple{Iface{}, false}, true
	case "(*sync.Map).Range":
		m, _ := in.syncMap(args[0].(Ptr), false)
		if m == nil {
			return nil, true
		}
		ents := append([]*MapEntry(nil), m.entries...)
		for _, e := range ents {
			if e.deleted {
				continue
			}
			r := in.callValue(fr, args[1], []Value{copyVal(e.k), copyVal(e.v)})
			if b, ok := r.(bool); ok && !b {
				break
			}
		}
		return nil, true
	case "(*sync.Map).Clear":
		_, c := in.syncMap(args[0].(Ptr), false)
		in.setCell(c, (*Map)(nil))
		return nil, true
	case "(*sync.Pool).Get":
		// a pool may hand back any object put into it earlier, or none: both
		// are explored when something has been put (the items live in the
		// pool's first pointer-typed field, undo-logged)
		st := structCell(args[0].(Ptr))
		c := poolCell(st)
		if items, _ := c.v.(poolItems); len(items) > 0 && in.choose("sync.Pool.Get-reuses", 2) == 1 {
			it := items[len(items)-1]
			in.setCell(c, poolItems(append([]Value(nil), items[:len(items)-1]...)))
			return it, true
		}
		sty := st.typ.Underlying().(*types.Struct)
		for i := 0; i < sty.NumFields(); i++ {
			if sty.Field(i).Name() == "New" {
				if f, _ := st.fields[i].v.(*Closure); f != nil {
					return in.callValue(fr, f, nil), true
				}
			}
		}
		return Iface{}, true
	case "(*sync.Pool).Put":
		st := structCell(args[0].(Ptr))
		c := poolCell(st)
		items, _ := c.v.(poolItems)
		in.setCell(c, poolItems(append(append([]Value(nil), items...), args[1])))
		return nil, true
	}
	// sync/atomic on plain words: one thread, so these are loads and stores
	if strings.HasPrefix(name, "sync/atomic.") {
		op := name[len("sync/atomic."):]
		switch {
		case strings.HasPrefix(op, "Load"):
			return in.load(args[0].(Ptr)), true
		case strings.HasPrefix(op, "Store"):
			in.store(args[0].(Ptr), args[1])
			return nil, true
		case strings.HasPrefix(op, "Add"):
			p := args[0].(Ptr)
			old, ok1 := in.load(p).(int64)
			d, ok2 := args[1].(int64)
			if ok1 && ok2 {
				in.store(p, old+d)
				return old + d, true
			}
		case strings.HasPrefix(op, "CompareAndSwap"):
			p := args[0].(Ptr)
			if old, ok := in.load(p).(int64); ok {
				if o, ok := args[1].(int64); ok && o == old {
					in.store(p, args[2])
					return true, true
				}
				return false, true
			}
		case strings.HasPrefix(op, "Swap"):
			p := args[0].(Ptr)
			old := in.load(p)
			in.store(p, args[1])
			return old, true
		}
	}
	// typed atomics: (*atomic.Int64).Add etc. - the value is the last field
	if strings.HasPrefix(name, "(*sync/atomic.") {
		k := strings.Index(name, ").")
		typ, op := name[len("(*sync/atomic."):k], name[k+2:]
		if typ == "Int32" || typ == "Int64" || typ == "Uint32" || typ == "Uint64" || typ == "Bool" || typ == "Uintptr" {
			st := structCell(args[0].(Ptr))
			c := st.fields[len(st.fields)-1]
			switch op {
			case "Load":
				if typ == "Bool" {
					d, _ := c.v.(int64)
					return d != 0, true
				}
				return c.v, true
			case "Store":
				v := args[1]
				if b, ok := v.(bool); ok {
					v = int64(0)
					if b {
						v = int64(1)
					}
				}
				in.setCell(c, v)
				return nil, true
			case "Add":
				old, ok1 := c.v.(int64)
				d, ok2 := args[1].(int64)
				if ok1 && ok2 {
					in.setCell(c, old+d)
					return old + d, true
				}
			case "CompareAndSwap":
				if old, ok := c.v.(int64); ok {
					if o, ok := args[1].(int64); ok && o == old {
						in.setCell(c, args[2])
						return true, true
					}
					return false, true
				}
			}
		}
	}
	return nil, false
}
