package main

import (
	"encoding/json"
	"fmt"
	"os"
	"path/filepath"
	"sort"
	"strings"
	"time"

	"golang.org/x/tools/go/ssa"
)

func writeEvidence(prop, tier string, seed int, cfg *Config, hs []*ssa.Function, results map[string]*harnessResult,
	stats *RunStats, nViol, nKnown, nReplayed int, inconclusive []string, wall, tLoad, tExplore time.Duration) {

	paths := 0
	steps := int64(0)
	var harnesses []map[string]interface{}
	var samples []interface{}
	assertsTotal := 0
	var names []string
	for n := range results {
		names = append(names, n)
	}
	sort.Strings(names)
	for _, n := range names {
		r := results[n]
		paths += r.Paths
		steps += r.Steps
		var asserts []string
		for a, c := range r.Asserts {
			asserts = append(asserts, fmt.Sprintf("%s×%d", a, c))
			assertsTotal += c
		}
		sort.Strings(asserts)
		var reached []string
		for l := range r.Reached {
			reached = append(reached, l)
		}
		sort.Strings(reached)
		h := map[string]interface{}{
			"harness": n, "paths": r.Paths, "path_ends": r.Ended, "aborted": r.Aborts,
			"assertions_evaluated": asserts, "assertion_queries": r.AssertQueries,
			"reach_labels": reached, "ssa_steps": r.Steps, "max_steps_per_path": r.MaxSteps,
			"feasibility_unknown": r.FeasUnknown,
		}
		var vs []map[string]interface{}
		for _, v := range sortedViolations(r) {
			vs = append(vs, map[string]interface{}{"assert": v.Assert, "known": v.Known, "paths": v.Count, "replay": v.W.Replay, "inputs": v.W.Inputs, "choices": v.W.Choices})
		}
		if vs != nil {
			h["counterexamples"] = vs
		}
		harnesses = append(harnesses, h)
		for _, s := range r.Samples {
			if len(samples) < 12 {
				samples = append(samples, map[string]interface{}{"harness": n, "path": s})
			}
		}
	}
	// functions encoded (yae functions executed from SSA), top by call count
	type fc struct {
		n string
		c int
	}
	var fcs []fc
	yaeFuncs := 0
	for f, c := range stats.Funcs {
		if strings.Contains(f, repoPrefix) && !strings.Contains(f, "zzverif") {
			yaeFuncs++
			fcs = append(fcs, fc{strings.ReplaceAll(f, repoPrefix+"/", ""), c})
		}
	}
	sort.Slice(fcs, func(i, j int) bool {
		if fcs[i].c != fcs[j].c {
			return fcs[i].c > fcs[j].c
		}
		return fcs[i].n < fcs[j].n
	})
	var fnames []string
	for i, f := range fcs {
		if i >= 60 {
			break
		}
		fnames = append(fnames, fmt.Sprintf("%s (%d calls)", f.n, f.c))
	}
	var notes []string
	for n := range stats.Notes {
		notes = append(notes, n)
	}
	sort.Strings(notes)
	assumptions := []string{
		"bounded symbolic execution of the real SSA of /repo (go/ssa, x/tools v0.29.0), reloaded from the working tree on this run; verdict = solver answer over all values of the symbolic inputs on every explored path, within the harness bounds",
		"platform linux/amd64",
		"trusted: symgo's SSA interpreter and standard-library intrinsics (DESIGN.md §2), z3 " + cfg.Solver,
		fmt.Sprintf("bounds: fuel %d SSA steps/path, ≤%d decisions/path, per-query solver time-out %d ms; any exhausted bound, unknown or unsupported construct makes the run inconclusive (exit 2), never passing", cfg.Fuel, cfg.MaxDecisions, cfg.TimeoutMs),
	}
	if b, err := os.ReadFile(filepath.Join(verifDir, "selftest", "report.json")); err == nil {
		var rep struct {
			Pass, Fail, Unsupported int
			Tests                   int `json:"tests_and_subtests"`
		}
		if json.Unmarshal(b, &rep) == nil && rep.Tests > 0 {
			assumptions = append(assumptions, fmt.Sprintf("engine validation (./selftest.sh, last recorded run): of goghcrow/yae's own %d tests and sub-tests executed inside the engine %d pass, %d fail, %d are unsupported (cgo time library, os/exec, uintptr round trips)", rep.Tests, rep.Pass, rep.Fail, rep.Unsupported))
		}
	}
	assumptions = append(assumptions, notes...)
	if len(samples) == 0 {
		samples = append(samples, "no completed path")
	}
	states := paths
	if states < 1 {
		states = 1
	}
	trans := stats.Queries
	if trans < 1 {
		trans = 1
	}
	ev := map[string]interface{}{
		"property_id": prop,
		"tier":        tier,
		"seed":        seed,
		"level":       "model_checking",
		"coverage": map[string]interface{}{
			"states":                        states,
			"transitions":                   trans,
			"traces_validated_against_impl": nReplayed,
			"samples":                       samples,
			"explanation": "states = symbolic paths explored (each covers all values of its symbolic inputs); transitions = SMT queries discharged (feasibility + assertion); " +
				"traces_validated_against_impl = counterexamples replayed natively with go test -overlay",
			"harnesses":               harnesses,
			"paths":                   paths,
			"ssa_steps":               steps,
			"assertions_evaluated":    assertsTotal,
			"solver":                  map[string]interface{}{"name": cfg.Solver, "queries": stats.Queries, "sat": stats.Sat, "unsat": stats.Unsat, "unknown": stats.Unknown, "errors": stats.Errors, "seconds": stats.SolverDur.Seconds(), "max_query_seconds": stats.MaxQuery.Seconds()},
			"functions_encoded_count": yaeFuncs,
			"functions_encoded_top":   fnames,
			"inconclusive":            inconclusive,
			"known_findings_hit":      nKnown,
			"load_s":                  tLoad.Seconds(),
			"explore_s":               tExplore.Seconds(),
			"workers":                 cfg.Workers,
			"exhaustive":              len(inconclusive) == 0,
		},
		"assumptions": assumptions,
		"wall_s":      wall.Seconds(),
		"violations":  nViol,
	}
	os.MkdirAll(filepath.Join(verifDir, "evidence"), 0o755)
	writeJSON(filepath.Join(verifDir, "evidence", prop+".json"), ev)
}
