package main

// Hash-consed SMT term DAG with constant folding and a concrete evaluator.
//
// Sorts: Bool, BV<n> (n in 1..64), F32, F64.  Constants carry their bit
// pattern in cbits (floats: IEEE bits; bool: 0/1).

import (
	"fmt"
	"math"
	"math/big"
	"strconv"
	"strings"
)

type Sort uint8

const (
	SBool Sort = iota
	SF32
	SF64
	sBVBase // SBV(n) = sBVBase + n
)

func SBV(n int) Sort      { return sBVBase + Sort(n) }
func (s Sort) IsBV() bool { return s > sBVBase }
func (s Sort) Width() int {
	switch s {
	case SBool:
		return 1
	case SF32:
		return 32
	case SF64:
		return 64
	}
	return int(s - sBVBase)
}
func (s Sort) IsFP() bool { return s == SF32 || s == SF64 }
func (s Sort) SMT() string {
	switch s {
	case SBool:
		return "Bool"
	case SF32:
		return "(_ FloatingPoint 8 24)"
	case SF64:
		return "(_ FloatingPoint 11 53)"
	}
	return fmt.Sprintf("(_ BitVec %d)", s.Width())
}
func (s Sort) String() string {
	switch s {
	case SBool:
		return "Bool"
	case SF32:
		return "F32"
	case SF64:
		return "F64"
	}
	return fmt.Sprintf("BV%d", s.Width())
}

type Term struct {
	id    int
	op    string // "var", "const", or SMT head e.g. "fp.add RNE", "(_ extract 7 0)"
	sort  Sort
	args  []*Term
	name  string // var
	cbits uint64 // const
	epoch int    // solver epoch in which this node has been defined
}

type TermStore struct {
	tab   map[string]*Term
	next  int
	vars  map[string]*Term
	fresh int
}

func newTermStore() *TermStore {
	return &TermStore{tab: map[string]*Term{}, vars: map[string]*Term{}}
}

func (ts *TermStore) intern(key string, mk func() *Term) *Term {
	if t, ok := ts.tab[key]; ok {
		return t
	}
	t := mk()
	ts.next++
	t.id = ts.next
	ts.tab[key] = t
	return t
}

func (ts *TermStore) Var(name string, s Sort) *Term {
	if t, ok := ts.vars[name]; ok {
		if t.sort != s {
			panic(fmt.Sprintf("symbolic input %q redeclared with sort %s (was %s)", name, s, t.sort))
		}
		return t
	}
	t := ts.intern("v|"+name, func() *Term { return &Term{op: "var", sort: s, name: name} })
	ts.vars[name] = t
	return t
}

func (ts *TermStore) Fresh(prefix string, s Sort) *Term {
	ts.fresh++
	return ts.Var(fmt.Sprintf("%s!%d@%s", prefix, ts.fresh, s), s)
}

func (ts *TermStore) Const(s Sort, bits uint64) *Term {
	if w := s.Width(); w < 64 {
		bits &= (uint64(1) << uint(w)) - 1
	}
	if s.IsFP() {
		// one NaN in SMT: canonicalise
		if s == SF64 && math.IsNaN(math.Float64frombits(bits)) {
			bits = 0x7ff8000000000000
		}
		if s == SF32 && bits&0x7f800000 == 0x7f800000 && bits&0x7fffff != 0 {
			bits = 0x7fc00000
		}
	}
	key := fmt.Sprintf("c|%d|%x", s, bits)
	return ts.intern(key, func() *Term { return &Term{op: "const", sort: s, cbits: bits} })
}

func (ts *TermStore) Bool(b bool) *Term {
	if b {
		return ts.Const(SBool, 1)
	}
	return ts.Const(SBool, 0)
}
func (ts *TermStore) F64(f float64) *Term      { return ts.Const(SF64, math.Float64bits(f)) }
func (ts *TermStore) F32(f float32) *Term      { return ts.Const(SF32, uint64(math.Float32bits(f))) }
func (ts *TermStore) BV(w int, v uint64) *Term { return ts.Const(SBV(w), v) }

func (t *Term) IsConst() bool { return t.op == "const" }
func (t *Term) IsTrue() bool  { return t.op == "const" && t.sort == SBool && t.cbits == 1 }
func (t *Term) IsFalse() bool { return t.op == "const" && t.sort == SBool && t.cbits == 0 }

// Mk builds (op args...) of the given sort, folding constants and applying
// a few local simplifications.
func (ts *TermStore) Mk(op string, s Sort, args ...*Term) *Term {
	allc := true
	for _, a := range args {
		if a == nil {
			panic("nil term arg to " + op)
		}
		if !a.IsConst() {
			allc = false
		}
	}
	if allc {
		vals := make([]uint64, len(args))
		sorts := make([]Sort, len(args))
		for i, a := range args {
			vals[i] = a.cbits
			sorts[i] = a.sort
		}
		if r, ok := evalOp(op, s, vals, sorts); ok {
			return ts.Const(s, r)
		}
	}
	// narrow comparisons / extractions of zero-extended terms (bytes widened to
	// runes and back), so that equal tests on a byte produce equal terms
	if len(args) >= 1 && strings.HasPrefix(op, "(_ extract ") && strings.HasPrefix(args[0].op, "(_ zero_extend ") {
		inner := args[0].args[0]
		var hi, lo int
		fmt.Sscanf(op, "(_ extract %d %d)", &hi, &lo)
		if lo == 0 && hi+1 == inner.sort.Width() {
			return inner
		}
	}
	if len(args) == 2 {
		switch op {
		case "=", "bvult", "bvule", "bvugt", "bvuge", "bvslt", "bvsle", "bvsgt", "bvsge":
			x, c := args[0], args[1]
			flipped := false
			if x.IsConst() && !c.IsConst() {
				x, c = c, x
				flipped = true
			}
			if c.IsConst() && strings.HasPrefix(x.op, "(_ zero_extend ") && x.sort.IsBV() {
				inner := x.args[0]
				w := inner.sort.Width()
				if w < 64 && c.cbits < (uint64(1)<<uint(w)) {
					nop := op
					switch op {
					case "bvslt":
						nop = "bvult"
					case "bvsle":
						nop = "bvule"
					case "bvsgt":
						nop = "bvugt"
					case "bvsge":
						nop = "bvuge"
					}
					nc := ts.Const(inner.sort, c.cbits)
					if flipped {
						return ts.Mk(nop, s, nc, inner)
					}
					return ts.Mk(nop, s, inner, nc)
				}
			}
		}
	}
	// local simplifications
	switch op {
	case "not":
		a := args[0]
		if a.op == "not" {
			return a.args[0]
		}
	case "and":
		var keep []*Term
		seen := map[int]bool{}
		for _, a := range args {
			if a.IsFalse() {
				return ts.Bool(false)
			}
			if a.IsTrue() || seen[a.id] {
				continue
			}
			seen[a.id] = true
			keep = append(keep, a)
		}
		for _, a := range keep {
			if a.op == "not" && seen[a.args[0].id] {
				return ts.Bool(false)
			}
		}
		if len(keep) == 0 {
			return ts.Bool(true)
		}
		if len(keep) == 1 {
			return keep[0]
		}
		args = keep
	case "or":
		var keep []*Term
		seen := map[int]bool{}
		for _, a := range args {
			if a.IsTrue() {
				return ts.Bool(true)
			}
			if a.IsFalse() || seen[a.id] {
				continue
			}
			seen[a.id] = true
			keep = append(keep, a)
		}
		for _, a := range keep {
			if a.op == "not" && seen[a.args[0].id] {
				return ts.Bool(true)
			}
		}
		if len(keep) == 0 {
			return ts.Bool(false)
		}
		if len(keep) == 1 {
			return keep[0]
		}
		args = keep
	case "ite":
		c := args[0]
		if c.IsTrue() {
			return args[1]
		}
		if c.IsFalse() {
			return args[2]
		}
		if args[1] == args[2] {
			return args[1]
		}
		if s == SBool {
			if args[1].IsTrue() && args[2].IsFalse() {
				return c
			}
			if args[1].IsFalse() && args[2].IsTrue() {
				return ts.Not(c)
			}
		}
	case "=":
		// SMT "=": identical values. Same node => true (also for FP: NaN = NaN in SMT "=").
		if args[0] == args[1] {
			return ts.Bool(true)
		}
		if s == SBool && args[0].sort == SBool {
			if args[1].IsTrue() {
				return args[0]
			}
			if args[1].IsFalse() {
				return ts.Not(args[0])
			}
			if args[0].IsTrue() {
				return args[1]
			}
			if args[0].IsFalse() {
				return ts.Not(args[1])
			}
		}
		if args[0].id > args[1].id {
			args = []*Term{args[1], args[0]}
		}
	case "bvadd", "bvor", "bvxor":
		if args[1].IsConst() && args[1].cbits == 0 {
			return args[0]
		}
		if args[0].IsConst() && args[0].cbits == 0 {
			return args[1]
		}
	case "bvsub":
		if args[1].IsConst() && args[1].cbits == 0 {
			return args[0]
		}
	}
	var kb strings.Builder
	kb.WriteString(op)
	kb.WriteByte('|')
	kb.WriteString(strconv.Itoa(int(s)))
	for _, a := range args {
		kb.WriteByte('|')
		kb.WriteString(strconv.Itoa(a.id))
	}
	cp := append([]*Term(nil), args...)
	return ts.intern(kb.String(), func() *Term { return &Term{op: op, sort: s, args: cp} })
}

func (ts *TermStore) Not(a *Term) *Term        { return ts.Mk("not", SBool, a) }
func (ts *TermStore) And(as ...*Term) *Term    { return ts.Mk("and", SBool, as...) }
func (ts *TermStore) Or(as ...*Term) *Term     { return ts.Mk("or", SBool, as...) }
func (ts *TermStore) Eq(a, b *Term) *Term      { return ts.Mk("=", SBool, a, b) }
func (ts *TermStore) Ite(c, a, b *Term) *Term  { return ts.Mk("ite", a.sort, c, a, b) }
func (ts *TermStore) Implies(a, b *Term) *Term { return ts.Or(ts.Not(a), b) }

// ---- serialisation

func (t *Term) leafSMT() string {
	switch t.op {
	case "var":
		return "|" + t.name + "|"
	case "const":
		switch t.sort {
		case SBool:
			if t.cbits == 1 {
				return "true"
			}
			return "false"
		case SF64:
			return fmt.Sprintf("((_ to_fp 11 53) #x%016x)", t.cbits)
		case SF32:
			return fmt.Sprintf("((_ to_fp 8 24) #x%08x)", t.cbits)
		}
		w := t.sort.Width()
		if w%4 == 0 {
			return fmt.Sprintf("#x%0*x", w/4, t.cbits)
		}
		return fmt.Sprintf("#b%0*b", w, t.cbits)
	}
	return fmt.Sprintf("t!%d", t.id)
}

func (t *Term) bodySMT() string {
	var sb strings.Builder
	sb.WriteByte('(')
	sb.WriteString(t.op)
	for _, a := range t.args {
		sb.WriteByte(' ')
		sb.WriteString(a.leafSMT())
	}
	sb.WriteByte(')')
	return sb.String()
}

// Pretty prints the full tree (for witnesses / debugging); bounded.
func (t *Term) Pretty(depth int) string {
	if t.op == "var" {
		return t.name
	}
	if t.op == "const" {
		switch t.sort {
		case SF64:
			return strconv.FormatFloat(math.Float64frombits(t.cbits), 'g', -1, 64)
		case SF32:
			return strconv.FormatFloat(float64(math.Float32frombits(uint32(t.cbits))), 'g', -1, 32)
		case SBool:
			return t.leafSMT()
		}
		return strconv.FormatInt(signExt(t.cbits, t.sort.Width()), 10)
	}
	if depth <= 0 {
		return "…"
	}
	var sb strings.Builder
	sb.WriteByte('(')
	sb.WriteString(t.op)
	for _, a := range t.args {
		sb.WriteByte(' ')
		sb.WriteString(a.Pretty(depth - 1))
	}
	sb.WriteByte(')')
	return sb.String()
}

// ---- evaluation

func signExt(v uint64, w int) int64 {
	if w >= 64 {
		return int64(v)
	}
	sh := uint(64 - w)
	return int64(v<<sh) >> sh
}
func maskW(v uint64, w int) uint64 {
	if w >= 64 {
		return v
	}
	return v & ((uint64(1) << uint(w)) - 1)
}

func b2u(b bool) uint64 {
	if b {
		return 1
	}
	return 0
}

func fpOf(bits uint64, s Sort) float64 {
	if s == SF32 {
		return float64(math.Float32frombits(uint32(bits)))
	}
	return math.Float64frombits(bits)
}
func fpBits(f float64, s Sort) uint64 {
	if s == SF32 {
		return uint64(math.Float32bits(float32(f)))
	}
	return math.Float64bits(f)
}

func roundIntegral(mode string, f float64) float64 {
	switch mode {
	case "RTZ":
		return math.Trunc(f)
	case "RTN":
		return math.Floor(f)
	case "RTP":
		return math.Ceil(f)
	case "RNA":
		return math.Round(f)
	case "RNE":
		return math.RoundToEven(f)
	}
	panic("round mode " + mode)
}

// evalOp evaluates one operator on constant arguments. ok=false means the
// operator is not evaluable here (left symbolic; never wrong).
func evalOp(op string, s Sort, v []uint64, as []Sort) (uint64, bool) {
	w := 0
	if len(as) > 0 {
		w = as[0].Width()
	}
	switch op {
	case "not":
		return v[0] ^ 1, true
	case "and":
		for _, x := range v {
			if x == 0 {
				return 0, true
			}
		}
		return 1, true
	case "or":
		for _, x := range v {
			if x == 1 {
				return 1, true
			}
		}
		return 0, true
	case "=":
		return b2u(v[0] == v[1]), true // consts are canonical (one NaN)
	case "distinct":
		return b2u(v[0] != v[1]), true
	case "ite":
		if v[0] == 1 {
			return v[1], true
		}
		return v[2], true
	case "bvadd":
		return maskW(v[0]+v[1], w), true
	case "bvsub":
		return maskW(v[0]-v[1], w), true
	case "bvmul":
		return maskW(v[0]*v[1], w), true
	case "bvneg":
		return maskW(-v[0], w), true
	case "bvnot":
		return maskW(^v[0], w), true
	case "bvand":
		return v[0] & v[1], true
	case "bvor":
		return v[0] | v[1], true
	case "bvxor":
		return v[0] ^ v[1], true
	case "bvudiv":
		if v[1] == 0 {
			return maskW(^uint64(0), w), true
		}
		return v[0] / v[1], true
	case "bvurem":
		if v[1] == 0 {
			return v[0], true
		}
		return v[0] % v[1], true
	case "bvsdiv":
		a, b := signExt(v[0], w), signExt(v[1], w)
		if b == 0 {
			if a >= 0 {
				return maskW(^uint64(0), w), true
			}
			return 1, true
		}
		if b == -1 {
			return maskW(uint64(-a), w), true
		}
		return maskW(uint64(a/b), w), true
	case "bvsrem":
		a, b := signExt(v[0], w), signExt(v[1], w)
		if b == 0 {
			return v[0], true
		}
		if b == -1 {
			return 0, true
		}
		return maskW(uint64(a%b), w), true
	case "bvshl":
		if v[1] >= uint64(w) {
			return 0, true
		}
		return maskW(v[0]<<v[1], w), true
	case "bvlshr":
		if v[1] >= uint64(w) {
			return 0, true
		}
		return v[0] >> v[1], true
	case "bvashr":
		a := signExt(v[0], w)
		sh := v[1]
		if sh >= uint64(w) {
			sh = uint64(w - 1)
		}
		return maskW(uint64(a>>sh), w), true
	case "bvult":
		return b2u(v[0] < v[1]), true
	case "bvule":
		return b2u(v[0] <= v[1]), true
	case "bvugt":
		return b2u(v[0] > v[1]), true
	case "bvuge":
		return b2u(v[0] >= v[1]), true
	case "bvslt":
		return b2u(signExt(v[0], w) < signExt(v[1], w)), true
	case "bvsle":
		return b2u(signExt(v[0], w) <= signExt(v[1], w)), true
	case "bvsgt":
		return b2u(signExt(v[0], w) > signExt(v[1], w)), true
	case "bvsge":
		return b2u(signExt(v[0], w) >= signExt(v[1], w)), true
	case "concat":
		return maskW(v[0]<<uint(as[1].Width())|v[1], s.Width()), true
	case "fp.add RNE", "fp.sub RNE", "fp.mul RNE", "fp.div RNE":
		a, b := fpOf(v[0], as[0]), fpOf(v[1], as[1])
		var r float64
		if as[0] == SF32 {
			x, y := float32(a), float32(b)
			var z float32
			switch op[3:6] {
			case "add":
				z = x + y
			case "sub":
				z = x - y
			case "mul":
				z = x * y
			case "div":
				z = x / y
			}
			r = float64(z)
		} else {
			switch op[3:6] {
			case "add":
				r = a + b
			case "sub":
				r = a - b
			case "mul":
				r = a * b
			case "div":
				r = a / b
			}
		}
		return fpBits(r, s), true
	case "fp.neg":
		if as[0] == SF32 {
			return v[0] ^ 0x80000000, true
		}
		if math.IsNaN(fpOf(v[0], as[0])) {
			return v[0], true
		}
		return v[0] ^ 0x8000000000000000, true
	case "fp.abs":
		return fpBits(math.Abs(fpOf(v[0], as[0])), s), true
	case "fp.eq":
		return b2u(fpOf(v[0], as[0]) == fpOf(v[1], as[1])), true
	case "fp.lt":
		return b2u(fpOf(v[0], as[0]) < fpOf(v[1], as[1])), true
	case "fp.leq":
		return b2u(fpOf(v[0], as[0]) <= fpOf(v[1], as[1])), true
	case "fp.gt":
		return b2u(fpOf(v[0], as[0]) > fpOf(v[1], as[1])), true
	case "fp.geq":
		return b2u(fpOf(v[0], as[0]) >= fpOf(v[1], as[1])), true
	case "fp.isNaN":
		return b2u(math.IsNaN(fpOf(v[0], as[0]))), true
	case "fp.isInfinite":
		return b2u(math.IsInf(fpOf(v[0], as[0]), 0)), true
	case "fp.isNegative":
		f := fpOf(v[0], as[0])
		return b2u(!math.IsNaN(f) && math.Signbit(f)), true
	case "fp.isZero":
		return b2u(fpOf(v[0], as[0]) == 0), true
	case "fp.roundToIntegral RTZ", "fp.roundToIntegral RTN", "fp.roundToIntegral RTP", "fp.roundToIntegral RNA", "fp.roundToIntegral RNE":
		return fpBits(roundIntegral(op[len(op)-3:], fpOf(v[0], as[0])), s), true
	case "(_ fp.to_sbv 64) RTZ":
		f := fpOf(v[0], as[0])
		if math.IsNaN(f) || f >= 9223372036854775808.0 || f < -9223372036854775808.0 {
			return 0, false // unspecified in SMT-LIB; the encoder guards it with ite
		}
		return uint64(int64(f)), true
	case "(_ fp.to_ubv 64) RTZ":
		f := fpOf(v[0], as[0])
		if math.IsNaN(f) || f >= 18446744073709551616.0 || f <= -1 {
			return 0, false
		}
		return uint64(f), true
	case "(_ to_fp 11 53) RNE", "(_ to_fp 8 24) RNE":
		// from signed bv or from fp, by argument sort
		if as[0].IsFP() {
			return fpBits(fpOf(v[0], as[0]), s), true
		}
		i := signExt(v[0], w)
		if s == SF32 {
			return uint64(math.Float32bits(float32(i))), true
		}
		return math.Float64bits(float64(i)), true
	case "(_ to_fp_unsigned 11 53) RNE", "(_ to_fp_unsigned 8 24) RNE":
		if s == SF32 {
			return uint64(math.Float32bits(float32(v[0]))), true
		}
		return math.Float64bits(float64(v[0])), true
	case "(_ to_fp 11 53)", "(_ to_fp 8 24)": // reinterpret bits
		return v[0], true
	}
	if strings.HasPrefix(op, "(_ extract ") {
		var hi, lo int
		fmt.Sscanf(op, "(_ extract %d %d)", &hi, &lo)
		return maskW(v[0]>>uint(lo), hi-lo+1), true
	}
	if strings.HasPrefix(op, "(_ zero_extend ") {
		return v[0], true
	}
	if strings.HasPrefix(op, "(_ sign_extend ") {
		return maskW(uint64(signExt(v[0], w)), s.Width()), true
	}
	return 0, false
}

// Eval evaluates t under a model (var name -> bits). Missing vars are 0.
// ok=false when an operator is unspecified for its arguments.
func (t *Term) Eval(model map[string]uint64, memo map[int]uint64) (uint64, bool) {
	if t.op == "const" {
		return t.cbits, true
	}
	if v, ok := memo[t.id]; ok {
		return v, true
	}
	if t.op == "var" {
		return model[t.name], true
	}
	// short-circuit ite so unspecified branches do not poison the result
	if t.op == "ite" {
		c, ok := t.args[0].Eval(model, memo)
		if !ok {
			return 0, false
		}
		var r uint64
		if c == 1 {
			r, ok = t.args[1].Eval(model, memo)
		} else {
			r, ok = t.args[2].Eval(model, memo)
		}
		if ok {
			memo[t.id] = r
		}
		return r, ok
	}
	vals := make([]uint64, len(t.args))
	sorts := make([]Sort, len(t.args))
	for i, a := range t.args {
		v, ok := a.Eval(model, memo)
		if !ok {
			return 0, false
		}
		vals[i] = v
		sorts[i] = a.sort
	}
	r, ok := evalOp(t.op, t.sort, vals, sorts)
	if ok {
		if t.sort.IsFP() {
			// canonical NaN
			if t.sort == SF64 && math.IsNaN(math.Float64frombits(r)) {
				r = 0x7ff8000000000000
			}
			if t.sort == SF32 && r&0x7f800000 == 0x7f800000 && r&0x7fffff != 0 {
				r = 0x7fc00000
			}
		}
		memo[t.id] = r
	}
	return r, ok
}

// Vars collects the variables below t.
func (t *Term) Vars(seen map[int]bool, out map[string]*Term) {
	if seen[t.id] {
		return
	}
	seen[t.id] = true
	if t.op == "var" {
		out[t.name] = t
	}
	for _, a := range t.args {
		a.Vars(seen, out)
	}
}

// ---- model value parsing (z3 / cvc5 get-value output for one value)

func parseModelValue(s string, sort Sort) (uint64, error) {
	s = strings.TrimSpace(s)
	switch sort {
	case SBool:
		if s == "true" {
			return 1, nil
		}
		if s == "false" {
			return 0, nil
		}
		return 0, fmt.Errorf("bad bool %q", s)
	case SF32, SF64:
		eb, sb := 11, 53
		if sort == SF32 {
			eb, sb = 8, 24
		}
		if strings.HasPrefix(s, "(_ ") {
			f := strings.Fields(strings.Trim(s, "()"))
			if len(f) < 2 {
				return 0, fmt.Errorf("bad fp %q", s)
			}
			var bits uint64
			switch f[1] {
			case "+zero":
				bits = 0
			case "-zero":
				bits = 1 << uint(eb+sb-1)
			case "+oo":
				bits = ((1 << uint(eb)) - 1) << uint(sb-1)
			case "-oo":
				bits = ((1<<uint(eb))-1)<<uint(sb-1) | 1<<uint(eb+sb-1)
			case "NaN":
				bits = ((1<<uint(eb))-1)<<uint(sb-1) | 1<<uint(sb-2)
			default:
				return 0, fmt.Errorf("bad fp %q", s)
			}
			return bits, nil
		}
		if strings.HasPrefix(s, "(fp ") {
			f := strings.Fields(strings.Trim(s, "()"))
			if len(f) != 4 {
				return 0, fmt.Errorf("bad fp %q", s)
			}
			var bits uint64
			for _, p := range f[1:] {
				v, n, err := parseBVLit(p)
				if err != nil {
					return 0, err
				}
				bits = bits<<uint(n) | v
			}
			return bits, nil
		}
		return 0, fmt.Errorf("bad fp %q", s)
	}
	v, _, err := parseBVLit(s)
	return v, err
}

func parseBVLit(p string) (uint64, int, error) {
	switch {
	case strings.HasPrefix(p, "#x"):
		v, err := strconv.ParseUint(p[2:], 16, 64)
		return v, 4 * (len(p) - 2), err
	case strings.HasPrefix(p, "#b"):
		v, err := strconv.ParseUint(p[2:], 2, 64)
		return v, len(p) - 2, err
	case strings.HasPrefix(p, "(_ bv"):
		f := strings.Fields(strings.Trim(p, "()"))
		b, ok := new(big.Int).SetString(f[1][2:], 10)
		if !ok {
			return 0, 0, fmt.Errorf("bad bv %q", p)
		}
		n, _ := strconv.Atoi(f[2])
		return b.Uint64(), n, nil
	}
	return 0, 0, fmt.Errorf("bad bv literal %q", p)
}
