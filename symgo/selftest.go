package main

// Translator validation ("selftest"): goghcrow/yae's own test functions are
// executed *inside the engine* (the SSA interpreter, the stdlib intrinsics,
// the reflect model, the regexp bridge) with a small model of *testing.T.
// Natively every one of these tests passes (BASELINE.json), so a test that
// FAILS inside the engine is an engine bug; a test the engine cannot run
// (cgo time library, encoding/json, os/exec, …) is reported as unsupported
// with the reason and is not counted either way.
//
// This is the Serval-style guard of DESIGN §2.8: the interpreter is pushed
// through the repository's 600-odd hand-written cases before its verdicts on
// symbolic inputs are believed.

import (
	"encoding/json"
	"flag"
	"fmt"
	"go/types"
	"os"
	"path/filepath"
	"regexp"
	"runtime/debug"
	"sort"
	"strings"
	"time"

	"golang.org/x/tools/go/ssa"
)

var loadTests bool

type testFatal struct{}

type selfRec struct {
	Name   string `json:"name"`
	Status string `json:"status"` // pass | fail | unsupported
	Why    string `json:"why,omitempty"`
	Steps  int    `json:"ssa_steps"`
}

type selfState struct {
	stack   []string
	failed  []bool
	recs    []*selfRec
	verbose bool
}

func (s *selfState) cur() string { return strings.Join(s.stack, "/") }

func (s *selfState) fail(msg string) {
	if len(s.failed) > 0 {
		s.failed[len(s.failed)-1] = true
	}
	if s.verbose {
		fmt.Printf("    FAIL %s: %s\n", s.cur(), truncate(msg, 400))
	}
	for _, r := range s.recs {
		if r.Name == s.cur() && r.Status == "running" {
			r.Why += truncate(msg, 300) + "; "
		}
	}
}

var selfSubSeq map[string]int

// runSub runs f as the (sub)test called name and records its verdict.
func (in *Interp) runSub(name string, f func()) bool {
	st := in.self
	st.stack = append(st.stack, name)
	st.failed = append(st.failed, false)
	rec := &selfRec{Name: st.cur(), Status: "running"}
	st.recs = append(st.recs, rec)
	steps0 := in.steps
	depth0, frame0 := in.depth, in.curFrame
	func() {
		defer func() {
			r := recover()
			if r == nil {
				return
			}
			in.depth, in.curFrame = depth0, frame0
			switch e := r.(type) {
			case testFatal:
			case fatalStack:
				in.unwinding = false
				st.fail("fatal: stack overflow")
			case pathAbort:
				rec.Status = "unsupported"
				rec.Why = e.reason
			case pathEnd:
				rec.Status = "unsupported"
				rec.Why = "path end: " + e.why
			case *GoPanic:
				st.fail("panic: " + ropeDesc(in.panicText(e)))
			default:
				rec.Status = "unsupported"
				rec.Why = fmt.Sprintf("engine error: %v\n%s", r, truncate(string(debug.Stack()), 1500))
			}
		}()
		f()
	}()
	failed := st.failed[len(st.failed)-1]
	if rec.Status == "running" {
		if failed {
			rec.Status = "fail"
		} else {
			rec.Status = "pass"
		}
	}
	rec.Steps = in.steps - steps0
	st.stack = st.stack[:len(st.stack)-1]
	st.failed = st.failed[:len(st.failed)-1]
	if (failed || rec.Status == "unsupported") && len(st.failed) > 0 {
		if failed {
			st.failed[len(st.failed)-1] = true
		}
	}
	return !failed
}

func (in *Interp) testingIntrinsic(fr *Frame, name string, args []Value) (Value, bool) {
	st := in.self
	if st == nil {
		return nil, false
	}
	msg := func(format bool) string {
		if format {
			return ropeDesc(in.sprintf(fr, args[1], args[2].(Slice)))
		}
		return ropeDesc(in.sprint(fr, args[1].(Slice), true))
	}
	switch name {
	case "(*testing.T).Run":
		sub := fmt.Sprint(args[1])
		sub = strings.ReplaceAll(sub, " ", "_")
		if sub == "" {
			sub = "#00"
		}
		key := st.cur() + "/" + sub
		if n := selfSubSeq[key]; n > 0 || sub == "#00" {
			if sub == "#00" {
				sub = fmt.Sprintf("#%02d", selfSubSeq[key])
			} else {
				sub = fmt.Sprintf("%s#%02d", sub, n)
			}
		}
		selfSubSeq[key]++
		ok := in.runSub(sub, func() { in.callValue(fr, args[2], []Value{args[0]}) })
		return ok, true
	case "(*testing.common).Errorf":
		st.fail(msg(true))
		return nil, true
	case "(*testing.common).Error":
		st.fail(msg(false))
		return nil, true
	case "(*testing.common).Fatalf":
		st.fail(msg(true))
		panic(testFatal{})
	case "(*testing.common).Fatal":
		st.fail(msg(false))
		panic(testFatal{})
	case "(*testing.common).Fail":
		st.fail("t.Fail()")
		return nil, true
	case "(*testing.common).FailNow":
		st.fail("t.FailNow()")
		panic(testFatal{})
	case "(*testing.common).Failed":
		return st.failed[len(st.failed)-1], true
	case "(*testing.common).Log", "(*testing.common).Logf", "(*testing.common).Helper", "(*testing.T).Parallel":
		return nil, true
	case "(*testing.common).Name":
		return st.cur(), true
	case "(*testing.common).Skip", "(*testing.common).Skipf", "(*testing.common).SkipNow":
		panic(pathAbort{"skipped by the test itself"})
	}
	return nil, false
}

func cmdSelftest(args []string) int {
	fs := flag.NewFlagSet("selftest", flag.ExitOnError)
	pkgs := fs.String("pkgs", "./test,./test/example,./ext,./types", "comma-separated package patterns whose tests are run inside the engine")
	runRe := fs.String("run", "", "regexp on top-level test names")
	verbose := fs.Bool("v", false, "verbose")
	out := fs.String("o", filepath.Join(verifDir, "selftest", "report.json"), "report file")
	fs.Parse(args)
	t0 := time.Now()
	loadTests = true
	prog, _, err := loadProgram(strings.Split(*pkgs, ","))
	if err != nil {
		fmt.Fprintln(os.Stderr, "load:", err)
		return 2
	}
	var re *regexp.Regexp
	if *runRe != "" {
		re = regexp.MustCompile(*runRe)
	}
	cfg := &Config{Solver: "z3", TimeoutMs: 10000, Fuel: 1 << 40, MaxDecisions: 400, MaxIndexSplit: 64, MaxPaths: 1, Workers: 1}
	type tf struct {
		pkg *ssa.Package
		fn  *ssa.Function
	}
	var tests []tf
	var tT types.Type
	for _, p := range prog.AllPackages() {
		if p.Pkg.Path() == "testing" {
			tT = p.Type("T").Type()
		}
		if !isRepoPkgPath(p.Pkg.Path()) || strings.Contains(p.Pkg.Path(), "zzverif") {
			continue
		}
		for name, m := range p.Members {
			fn, ok := m.(*ssa.Function)
			if !ok || !strings.HasPrefix(name, "Test") || fn.Signature.Params().Len() != 1 {
				continue
			}
			if !strings.HasSuffix(fn.Signature.Params().At(0).Type().String(), "testing.T") {
				continue
			}
			if re != nil && !re.MatchString(name) {
				continue
			}
			tests = append(tests, tf{p, fn})
		}
	}
	sort.Slice(tests, func(i, j int) bool {
		if tests[i].pkg != tests[j].pkg {
			return tests[i].pkg.Pkg.Path() < tests[j].pkg.Pkg.Path()
		}
		return tests[i].fn.Pos() < tests[j].fn.Pos()
	})
	if tT == nil || len(tests) == 0 {
		fmt.Println("selftest: no tests found")
		return 2
	}
	selfSubSeq = map[string]int{}
	in := newInterp(prog, cfg)
	in.stats = &RunStats{}
	in.self = &selfState{verbose: *verbose}
	in.results = newHarnessResult("selftest")
	var lastPkg *ssa.Package
	for _, t := range tests {
		if t.pkg != lastPkg {
			lastPkg = t.pkg
			func() {
				defer func() {
					if r := recover(); r != nil {
						fmt.Printf("selftest: init of %s failed: %v\n", t.pkg.Pkg.Path(), r)
					}
				}()
				in.ensureInit(t.fn)
			}()
		}
		in.logging = false
		in.resetPath()
		in.fuel = 1 << 40
		in.harness = t.fn.Name()
		tcell := newCell(zero(tT), nil, 0)
		fixParents(tcell)
		tptr := Ptr{c: tcell}
		short := strings.TrimPrefix(strings.TrimPrefix(t.pkg.Pkg.Path(), repoPrefix), "/")
		in.self.stack = []string{short + "::"}
		in.self.failed = []bool{false}
		in.self.stack = nil
		in.self.failed = nil
		in.runSub(short+"::"+t.fn.Name(), func() { in.callFn(nil, t.fn, []Value{tptr}, nil) })
	}
	count := map[string]int{}
	why := map[string]int{}
	for _, r := range in.self.recs {
		count[r.Status]++
		if r.Status == "unsupported" {
			w := r.Why
			if k := strings.Index(w, " at /"); k > 0 {
				w = w[:k]
			}
			why[truncate(w, 120)]++
		}
		if *verbose || r.Status == "fail" {
			fmt.Printf("  %-12s %s %s\n", r.Status, r.Name, truncate(r.Why, 300))
		}
	}
	rep := map[string]interface{}{
		"what":               "goghcrow/yae's own test functions executed inside the symbolic executor (concretely) with a model of *testing.T; every test passes natively, so a failure here is an engine bug",
		"packages":           strings.Split(*pkgs, ","),
		"tests_and_subtests": len(in.self.recs),
		"pass":               count["pass"], "fail": count["fail"], "unsupported": count["unsupported"],
		"unsupported_reasons": why,
		"wall_seconds":        time.Since(t0).Seconds(),
		"records":             in.self.recs,
	}
	b, _ := json.MarshalIndent(rep, "", " ")
	os.MkdirAll(filepath.Dir(*out), 0o755)
	os.WriteFile(*out, b, 0o644)
	fmt.Printf("selftest: %d tests+subtests: pass=%d fail=%d unsupported=%d (%v) wall=%.1fs\n",
		len(in.self.recs), count["pass"], count["fail"], count["unsupported"], why, time.Since(t0).Seconds())
	if count["fail"] > 0 {
		return 1
	}
	return 0
}
