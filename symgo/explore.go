package main

import (
	"fmt"
	"os"
	"runtime/debug"
	"sort"
	"strings"
	"sync"
	"sync/atomic"
	"time"

	"golang.org/x/tools/go/ssa"
)

type Config struct {
	Solver        string
	TimeoutMs     int
	Fuel          int
	MaxDecisions  int
	MaxIndexSplit int
	MaxPaths      int
	Workers       int
	Thorough      bool
	Verbose       bool
	Known         []*KnownFinding
	Fix           map[string]int // debugging: force named choices
	NoGuess       bool
	GuessTries    int
	Seed          int
}

type KnownFinding struct {
	ID       string         `json:"id"`
	Property string         `json:"property"`
	Harness  string         `json:"harness"`
	Assert   string         `json:"assert"`
	Region   string         `json:"region,omitempty"`
	Choices  map[string]int `json:"choices,omitempty"`
	What     string         `json:"what"`
	Fixed    string         `json:"fixed,omitempty"` // commit of the fix: entry suppresses nothing
}

type WitnessInput struct {
	Sort   string `json:"sort"`
	Bits   string `json:"bits"`
	Pretty string `json:"value"`
}
type WitnessChoice struct {
	Name string `json:"name"`
	K    int    `json:"k"`
	N    int    `json:"n"`
}
type Witness struct {
	Property  string                  `json:"property"`
	Harness   string                  `json:"harness"`
	Package   string                  `json:"package"`
	Assert    string                  `json:"assert"`
	Inputs    map[string]WitnessInput `json:"inputs"`
	Choices   []WitnessChoice         `json:"choices"`
	Decisions []int                   `json:"decisions"`
	Events    []string                `json:"events,omitempty"`
	Known     string                  `json:"known,omitempty"`
	Replay    string                  `json:"replay,omitempty"`
}

type Violation struct {
	Harness string
	Assert  string
	Known   string
	W       *Witness
	Alts    []*Witness // further counterexamples of the same assertion from other paths (tried when W does not reproduce natively)
	Count   int
}

type harnessResult struct {
	mu               sync.Mutex
	Name             string
	Paths            int
	Ended            map[string]int // normal ends by reason
	Aborts           map[string]int // inconclusive ends by reason
	Violations       map[string]*Violation
	Asserts          map[string]int
	AssertQueries    int
	Reached          map[string]int
	Steps            int64
	MaxSteps         int
	Inconclusive     map[string]int
	FeasUnknown      int
	Samples          []string
	EngineErrors     []string
	lastNewViolation string
}

func newHarnessResult(name string) *harnessResult {
	return &harnessResult{Name: name, Ended: map[string]int{}, Aborts: map[string]int{}, Violations: map[string]*Violation{},
		Asserts: map[string]int{}, Reached: map[string]int{}, Inconclusive: map[string]int{}}
}

func (r *harnessResult) inconclusive(why string) { r.Inconclusive[why]++ }

func (r *harnessResult) addViolation(h, id string, w *Witness, known string) {
	key := h + "|" + id + "|" + known
	if v, ok := r.Violations[key]; ok {
		v.Count++
		// keep a spread of alternatives: the 2nd, 4th, 8th ... failing path
		if c := v.Count; c&(c-1) == 0 && len(v.Alts) < 10 {
			w.Known = known
			v.Alts = append(v.Alts, w)
		}
		return
	}
	w.Known = known
	r.Violations[key] = &Violation{Harness: h, Assert: id, Known: known, W: w, Count: 1}
}

func (r *harnessResult) merge(o *harnessResult) {
	r.mu.Lock()
	defer r.mu.Unlock()
	r.Paths += o.Paths
	for k, v := range o.Ended {
		r.Ended[k] += v
	}
	for k, v := range o.Aborts {
		r.Aborts[k] += v
	}
	for k, v := range o.Violations {
		if e, ok := r.Violations[k]; ok {
			e.Count += v.Count
			if len(e.Alts) < 10 {
				e.Alts = append(e.Alts, v.W)
				for _, a := range v.Alts {
					if len(e.Alts) < 10 {
						e.Alts = append(e.Alts, a)
					}
				}
			}
		} else {
			r.Violations[k] = v
		}
	}
	for k, v := range o.Asserts {
		r.Asserts[k] += v
	}
	r.AssertQueries += o.AssertQueries
	for k, v := range o.Reached {
		r.Reached[k] += v
	}
	r.Steps += o.Steps
	if o.MaxSteps > r.MaxSteps {
		r.MaxSteps = o.MaxSteps
	}
	for k, v := range o.Inconclusive {
		r.Inconclusive[k] += v
	}
	r.FeasUnknown += o.FeasUnknown
	for _, s := range o.Samples {
		if len(r.Samples) < 4 {
			r.Samples = append(r.Samples, s)
		}
	}
	r.EngineErrors = append(r.EngineErrors, o.EngineErrors...)
}

type RunStats struct {
	Queries, Sat, Unsat, Unknown, Errors int
	GuessHits, GuessMiss, ModelHits      int
	Retried                              int
	SolverDur, MaxQuery                  time.Duration
	Funcs                                map[string]int
	Notes                                map[string]bool
}

type task struct {
	h      *ssa.Function
	prefix []decisionRec
	fixed  int // number of leading decisions that must not be flipped
}

type pool struct {
	mu      sync.Mutex
	cond    *sync.Cond
	queue   []*task
	active  int
	idle    int32
	workers int
	done    bool
	paths   int64
	maxPath int64
	cmu     sync.Mutex
	perH    map[string]int64
}

// count increments and returns the number of paths started for a harness.
func (p *pool) count(h string) int64 {
	p.cmu.Lock()
	defer p.cmu.Unlock()
	if p.perH == nil {
		p.perH = map[string]int64{}
	}
	p.perH[h]++
	return p.perH[h]
}

func (p *pool) push(t *task) {
	p.mu.Lock()
	p.queue = append(p.queue, t)
	p.mu.Unlock()
	p.cond.Signal()
}

func (p *pool) pop() *task {
	p.mu.Lock()
	defer p.mu.Unlock()
	for {
		if len(p.queue) > 0 {
			t := p.queue[0]
			p.queue = p.queue[1:]
			p.active++
			return t
		}
		if p.active == 0 {
			p.done = true
			p.cond.Broadcast()
			return nil
		}
		atomic.AddInt32(&p.idle, 1)
		p.cond.Wait()
		atomic.AddInt32(&p.idle, -1)
		if p.done {
			return nil
		}
	}
}

func (p *pool) finish() {
	p.mu.Lock()
	p.active--
	if p.active == 0 && len(p.queue) == 0 {
		p.done = true
		p.cond.Broadcast()
	}
	p.mu.Unlock()
}

// runPath executes the harness once under in.prefix.
func (in *Interp) runPath(h *ssa.Function, res *harnessResult) {
	in.resetPath()
	in.regions = map[string]*Term{}
	in.results = res
	in.harness = h.Name()
	in.fuel = in.cfg.Fuel
	in.thorough = in.cfg.Thorough
	in.feasUnknown = 0
	end := "done"
	func() {
		defer func() {
			if r := recover(); r != nil {
				switch e := r.(type) {
				case pathEnd:
					end = e.why
				case pathAbort:
					end = ""
					reason := e.reason
					if k := strings.Index(reason, " at /"); k > 0 {
						reason = reason[:k]
					}
					res.Aborts[reason]++
				case fatalStack:
					in.unwinding = false
					end = "fatal-stack-overflow"
					m := in.check(nil, true)
					if m.Res == "unknown" {
						res.inconclusive("solver unknown on stack overflow")
					} else {
						res.addViolation(in.harness, "panic-escaped", in.witness("panic-escaped", m.Model), in.knownFor("panic-escaped"))
					}
				case *GoPanic:
					// a panic escaped the harness body
					end = "panic-escaped"
					m := in.check(nil, true)
					cls := in.classify(e)
					in.events = append(in.events, "escaped: "+cls+" "+ropeDesc(in.panicText(e)))
					if m.Res == "unknown" {
						res.inconclusive("solver unknown on escaped panic")
					} else {
						w := in.witness("panic-escaped", m.Model)
						res.addViolation(in.harness, "panic-escaped", w, in.knownFor("panic-escaped"))
					}
				default:
					end = ""
					res.EngineErrors = append(res.EngineErrors, fmt.Sprintf("%v\n%s", r, truncate(string(debug.Stack()), 3000)))
				}
			}
		}()
		in.callFn(nil, h, nil, nil)
		if in.castRaised > in.castSeen {
			// a mis-typed variant access happened and the code under test
			// recovered from the engine's panic itself (natively there is no
			// panic: the access silently reads another variant's memory), so
			// no sv.Outcome reported it to the harness
			m := in.check(nil, true)
			if m.Res == "unknown" {
				res.inconclusive("solver unknown on swallowed mis-typed access")
			} else {
				id := "no-mis-typed-variant-access-(swallowed-by-the-code's-own-recover)"
				res.addViolation(in.harness, id, in.witness(id, m.Model), in.knownFor(id))
			}
		}
	}()
	if os.Getenv("SYMGO_TRACE") != "" {
		var ks []string
		for _, d := range in.trace {
			ks = append(ks, fmt.Sprintf("%d/%d%s", d.k, d.n, d.name))
		}
		fmt.Printf("  path end=%q steps=%d trace=%v\n", end, in.steps, ks)
	}
	in.rollback(0, 0)
	res.Paths++
	if end != "" {
		res.Ended[end]++
	}
	res.Steps += int64(in.steps)
	if in.steps > res.MaxSteps {
		res.MaxSteps = in.steps
	}
	res.FeasUnknown += in.feasUnknown
	for l := range in.reached {
		res.Reached[l]++
	}
	if len(res.Samples) < 3 && end == "done" {
		res.Samples = append(res.Samples, in.describePath())
	}
}

func (in *Interp) knownFor(id string) string {
	for _, kf := range in.cfg.Known {
		if kf.Harness == in.harness && kf.Assert == id && kf.Fixed == "" && kf.Region == "" && in.choicesMatch(kf.Choices) {
			return kf.ID
		}
	}
	return ""
}

func (in *Interp) panicText(e *GoPanic) Value {
	if e.rt != "" {
		return "runtime error: " + e.rt
	}
	if ia, ok := e.val.(Iface); ok {
		if s, ok := in.stringerOf(nil, ia.t, ia.v); ok {
			return s
		}
		if s, ok := ia.v.(string); ok {
			return s
		}
	}
	return "?"
}

func truncate(s string, n int) string {
	if len(s) > n {
		return s[:n] + "…"
	}
	return s
}

func (in *Interp) describePath() string {
	var sb strings.Builder
	var ch []string
	for _, d := range in.trace {
		if d.name != "" {
			ch = append(ch, fmt.Sprintf("%s=%d/%d", d.name, d.k, d.n))
		}
	}
	fmt.Fprintf(&sb, "choices[%s] inputs[", strings.Join(ch, " "))
	for i, inp := range in.inputs {
		if i > 0 {
			sb.WriteString(" ")
		}
		sb.WriteString(inp.Name + ":" + inp.Sort.String())
	}
	fmt.Fprintf(&sb, "] decisions=%d pc=%d steps=%d", len(in.trace), len(in.pc), in.steps)
	if len(in.pc) > 0 {
		sb.WriteString(" pc0=" + truncate(in.pc[len(in.pc)-1].Pretty(4), 160))
	}
	return sb.String()
}

// nextPrefix computes the DFS successor of the finished path, never flipping
// the first `fixed` decisions. ok=false when the subtree is exhausted.
func nextPrefix(trace []decisionRec, fixed int) ([]decisionRec, bool) {
	for p := len(trace) - 1; p >= fixed; p-- {
		rec := trace[p]
		for k := rec.k + 1; k < rec.n; k++ {
			if rec.feas[k] && !rec.donated[k] {
				np := make([]decisionRec, p+1)
				copy(np, trace[:p+1])
				np[p].k = k
				return np, true
			}
		}
	}
	return nil, false
}

// donate splits off the shallowest unexplored alternatives as new tasks.
func donate(trace []decisionRec, fixed int, h *ssa.Function, p *pool, max int) {
	given := 0
	for pos := fixed; pos < len(trace) && given < max; pos++ {
		rec := trace[pos]
		for k := rec.k + 1; k < rec.n && given < max; k++ {
			if rec.feas[k] && !rec.donated[k] {
				rec.donated[k] = true
				np := make([]decisionRec, pos+1)
				copy(np, trace[:pos+1])
				// fresh donated slices for the new owner at and below pos
				np[pos].k = k
				np[pos].donated = make([]bool, rec.n)
				for j := 0; j <= k; j++ {
					np[pos].donated[j] = true
				}
				p.push(&task{h: h, prefix: np, fixed: pos + 1})
				given++
			}
		}
	}
}

func (in *Interp) ensureInit(h *ssa.Function) {
	pkg := h.Pkg
	if in.inited[pkg] {
		return
	}
	in.logging = false
	in.resetPath()
	in.fuel = 1 << 40
	in.results = newHarnessResult("init")
	if initFn := pkg.Func("init"); initFn != nil {
		in.callFn(nil, initFn, nil, nil)
	}
	in.inited[pkg] = true
	in.logging = true
}

func (in *Interp) runTask(t *task, p *pool, res *harnessResult, cfg *Config) {
	in.ensureInit(t.h)
	in.prefix = t.prefix
	for {
		atomic.AddInt64(&p.paths, 1)
		if p.count(t.h.Name()) > p.maxPath {
			res.inconclusive(fmt.Sprintf("path budget of %d per harness exhausted", p.maxPath))
			return
		}
		in.runPath(t.h, res)
		trace := append([]decisionRec(nil), in.trace...)
		if atomic.LoadInt32(&p.idle) > 0 {
			donate(trace, t.fixed, t.h, p, int(atomic.LoadInt32(&p.idle)))
		}
		np, ok := nextPrefix(trace, t.fixed)
		if !ok {
			return
		}
		in.prefix = np
		if len(in.ts.tab) > 400000 {
			in.ts = newTermStore()
			in.sol.restart()
		}
	}
}

func collectStats(ins []*Interp) *RunStats {
	st := &RunStats{Funcs: map[string]int{}, Notes: map[string]bool{}}
	for _, in := range ins {
		for _, s := range []*Solver{in.sol, in.sol2, in.sol3} {
			if s == nil {
				continue
			}
			if s != in.sol {
				st.Retried += s.Queries
			}
			st.Queries += s.Queries
			st.Sat += s.Sat
			st.Unsat += s.Unsat
			st.Unknown += s.Unknown
			st.Errors += s.Errors
			st.GuessHits += in.guessHits
			st.GuessMiss += in.guessMiss
			st.ModelHits += in.modelHits + in.synHits
			st.SolverDur += s.Dur
			if s.MaxQuery > st.MaxQuery {
				st.MaxQuery = s.MaxQuery
			}
		}
		for f, n := range in.funcsRun {
			st.Funcs[f.String()] += n
		}
		for n := range in.notes {
			st.Notes[n] = true
		}
	}
	return st
}

// explore runs all harnesses on a pool of workers.
func explore(prog *ssa.Program, hs []*ssa.Function, cfg *Config) (map[string]*harnessResult, *RunStats) {
	results := map[string]*harnessResult{}
	for _, h := range hs {
		results[h.Name()] = newHarnessResult(h.Name())
	}
	p := &pool{workers: cfg.Workers, maxPath: int64(cfg.MaxPaths)}
	p.cond = sync.NewCond(&p.mu)
	for _, h := range hs {
		p.queue = append(p.queue, &task{h: h})
	}
	var wg sync.WaitGroup
	ins := make([]*Interp, cfg.Workers)
	stopTick := make(chan struct{})
	if cfg.Verbose {
		go func() {
			t0 := time.Now()
			for {
				select {
				case <-stopTick:
					return
				case <-time.After(10 * time.Second):
					p.mu.Lock()
					q, a := len(p.queue), p.active
					p.mu.Unlock()
					fmt.Printf("  [progress %.0fs] paths=%d queued=%d active=%d\n", time.Since(t0).Seconds(), atomic.LoadInt64(&p.paths), q, a)
				}
			}
		}()
	}
	for w := 0; w < cfg.Workers; w++ {
		wg.Add(1)
		go func(w int) {
			defer wg.Done()
			in := newInterp(prog, cfg)
			ins[w] = in
			defer func() {
				for _, s := range []*Solver{in.sol, in.sol2, in.sol3} {
					if s != nil {
						s.Close()
					}
				}
			}()
			for {
				t := p.pop()
				if t == nil {
					return
				}
				local := newHarnessResult(t.h.Name())
				func() {
					defer func() {
						if r := recover(); r != nil {
							local.EngineErrors = append(local.EngineErrors, fmt.Sprintf("%v\n%s", r, truncate(string(debug.Stack()), 3000)))
						}
					}()
					in.runTask(t, p, local, cfg)
				}()
				results[t.h.Name()].merge(local)
				p.finish()
			}
		}(w)
	}
	wg.Wait()
	close(stopTick)
	return results, collectStats(ins)
}

func sortedViolations(r *harnessResult) []*Violation {
	var out []*Violation
	for _, v := range r.Violations {
		out = append(out, v)
	}
	sort.Slice(out, func(i, j int) bool {
		if out[i].Assert != out[j].Assert {
			return out[i].Assert < out[j].Assert
		}
		return out[i].Known < out[j].Known
	})
	return out
}
