package main

// Ropes: strings with symbolic parts.
//
// A rope is a sequence of chunks: literal bytes, one symbolic byte (BV8 term)
// or an atom (the rendering of a symbolic scalar by strconv, see DESIGN §2.5).

import (
	"fmt"
	"math"
	"strconv"
	"strings"
	"unicode/utf8"
)

type Atom struct {
	kind string // fmtint fmtfloat fmtbool quote opaque
	t    *Term  // fmtint: BV64; fmtfloat: F64; fmtbool: Bool
	r    Value  // quote: the quoted string (string or *Rope)
	id   int    // identity (opaque atoms are equal only to themselves)
	key  string // opaque atoms: same function applied to the same argument terms ("" = unknown)
	desc string
}

type Chunk struct {
	lit  string
	b    *Term // symbolic byte
	atom *Atom
}

type Rope struct{ chunks []Chunk }

func (c Chunk) isLit() bool { return c.b == nil && c.atom == nil }

const (
	classInt   = "-0123456789"
	classFloat = "-+.0123456789NaInf"
	classBool  = "truefals"
)

func atomClass(a *Atom) (string, bool) {
	switch a.kind {
	case "fmtint":
		return classInt, true
	case "fmtfloat":
		return classFloat, true
	case "fmtbool":
		return classBool, true
	}
	return "", false
}

func normRope(chunks []Chunk) Value {
	var out []Chunk
	sym := false
	for _, c := range chunks {
		if c.isLit() {
			if c.lit == "" {
				continue
			}
			if n := len(out); n > 0 && out[n-1].isLit() {
				out[n-1].lit += c.lit
				continue
			}
		} else {
			sym = true
		}
		out = append(out, c)
	}
	if !sym {
		if len(out) == 0 {
			return ""
		}
		return out[0].lit
	}
	return &Rope{out}
}

func chunksOf(v Value) []Chunk {
	switch s := v.(type) {
	case string:
		if s == "" {
			return nil
		}
		return []Chunk{{lit: s}}
	case *Rope:
		return s.chunks
	}
	panic(pathAbort{fmt.Sprintf("unsupported: string operation on %T", v)})
}

func strConcat(a, b Value) Value {
	if x, ok := a.(string); ok {
		if y, ok := b.(string); ok {
			return x + y
		}
	}
	ca, cb := chunksOf(a), chunksOf(b)
	all := make([]Chunk, 0, len(ca)+len(cb))
	all = append(all, ca...)
	all = append(all, cb...)
	return normRope(all)
}

func ropeDesc(v Value) string {
	switch s := v.(type) {
	case string:
		return strconv.Quote(s)
	case *Rope:
		var sb strings.Builder
		for _, c := range s.chunks {
			switch {
			case c.isLit():
				sb.WriteString(c.lit)
			case c.b != nil:
				sb.WriteString("‹" + c.b.Pretty(3) + "›")
			default:
				sb.WriteString("‹" + c.atom.describe() + "›")
			}
		}
		return sb.String()
	}
	return fmt.Sprint(v)
}

func (a *Atom) describe() string {
	switch a.kind {
	case "quote":
		return "quote(" + ropeDesc(a.r) + ")"
	case "opaque":
		return a.desc
	}
	return a.kind + "(" + a.t.Pretty(4) + ")"
}

func (in *Interp) newAtom(kind string, t *Term, r Value, desc string) *Atom {
	in.atomSeq++
	return &Atom{kind: kind, t: t, r: r, id: in.atomSeq, desc: desc}
}

// strLen: byte length. Atoms have a symbolic positive length.
func (in *Interp) strLen(v Value) Value {
	if s, ok := v.(string); ok {
		return int64(len(s))
	}
	n := int64(0)
	var sym *Term
	for _, c := range chunksOf(v) {
		switch {
		case c.isLit():
			n += int64(len(c.lit))
		case c.b != nil:
			n++
		default:
			l := in.atomLen(c.atom)
			if sym == nil {
				sym = l
			} else {
				sym = in.ts.Mk("bvadd", SBV(64), sym, l)
			}
		}
	}
	if sym == nil {
		return n
	}
	return in.ts.Mk("bvadd", SBV(64), sym, in.ts.BV(64, uint64(n)))
}

func (in *Interp) atomLen(a *Atom) *Term {
	if l, ok := in.atomLens[a.id]; ok {
		return l
	}
	l := in.ts.Fresh("atomlen", SBV(64))
	in.atomLens[a.id] = l
	// 1 <= len <= 400 (FormatFloat 'f' of MaxFloat64 has 309 digits)
	in.addPC(in.ts.And(in.ts.Mk("bvsge", SBool, l, in.ts.BV(64, 1)), in.ts.Mk("bvsle", SBool, l, in.ts.BV(64, 400))))
	return l
}

func ropeHasAtom(v Value) bool {
	r, ok := v.(*Rope)
	if !ok {
		return false
	}
	for _, c := range r.chunks {
		if c.atom != nil {
			return true
		}
	}
	return false
}

// strBytes expands an atom-free string into per-byte values (int64 or *Term).
func strBytes(v Value) []Value {
	if s, ok := v.(string); ok {
		out := make([]Value, len(s))
		for i := 0; i < len(s); i++ {
			out[i] = int64(s[i])
		}
		return out
	}
	var out []Value
	for _, c := range chunksOf(v) {
		switch {
		case c.isLit():
			for i := 0; i < len(c.lit); i++ {
				out = append(out, int64(c.lit[i]))
			}
		case c.b != nil:
			out = append(out, c.b)
		default:
			panic(pathAbort{"unsupported: byte view of a rendered symbolic scalar (" + c.atom.describe() + ")"})
		}
	}
	return out
}

func ropeFromBytes(bs []Value) Value {
	var chunks []Chunk
	var lit []byte
	for _, b := range bs {
		switch x := b.(type) {
		case int64:
			lit = append(lit, byte(x))
		case *Term:
			if len(lit) > 0 {
				chunks = append(chunks, Chunk{lit: string(lit)})
				lit = nil
			}
			chunks = append(chunks, Chunk{b: x})
		}
	}
	if len(lit) > 0 {
		chunks = append(chunks, Chunk{lit: string(lit)})
	}
	return normRope(chunks)
}

func (in *Interp) strIndex(v Value, i int64) Value {
	if s, ok := v.(string); ok {
		if i < 0 || i >= int64(len(s)) {
			panic(rtPanic("rt:index", fmt.Sprintf("index out of range [%d] with length %d", i, len(s))))
		}
		return int64(s[i])
	}
	pos := int64(0)
	for _, c := range chunksOf(v) {
		switch {
		case c.isLit():
			if i < pos+int64(len(c.lit)) {
				return int64(c.lit[i-pos])
			}
			pos += int64(len(c.lit))
		case c.b != nil:
			if i == pos {
				return c.b
			}
			pos++
		default:
			panic(pathAbort{"unsupported: indexing past a rendered symbolic scalar"})
		}
	}
	panic(rtPanic("rt:index", fmt.Sprintf("index out of range [%d] with length %d", i, pos)))
}

func (in *Interp) strSlice(v Value, lo, hi int64, hasHi bool) Value {
	if s, ok := v.(string); ok {
		if !hasHi {
			hi = int64(len(s))
		}
		if lo < 0 || hi > int64(len(s)) || lo > hi {
			panic(rtPanic("rt:index", fmt.Sprintf("slice bounds out of range [%d:%d] with length %d", lo, hi, len(s))))
		}
		return s[lo:hi]
	}
	if ropeHasAtom(v) {
		// only whole-rope and suffix-at-literal-prefix slices are representable
		cs := chunksOf(v)
		if !hasHi {
			// drop lo bytes from the leading atom-free part
			pos := int64(0)
			for k, c := range cs {
				if pos == lo {
					return normRope(cs[k:])
				}
				switch {
				case c.isLit():
					if lo < pos+int64(len(c.lit)) {
						rest := append([]Chunk{{lit: c.lit[lo-pos:]}}, cs[k+1:]...)
						return normRope(rest)
					}
					pos += int64(len(c.lit))
				case c.b != nil:
					pos++
				default:
					panic(pathAbort{"unsupported: slicing inside a rendered symbolic scalar"})
				}
			}
		}
		panic(pathAbort{"unsupported: slicing a string containing a rendered symbolic scalar"})
	}
	bs := strBytes(v)
	if !hasHi {
		hi = int64(len(bs))
	}
	if lo < 0 || hi > int64(len(bs)) || lo > hi {
		panic(rtPanic("rt:index", fmt.Sprintf("slice bounds out of range [%d:%d] with length %d", lo, hi, len(bs))))
	}
	return ropeFromBytes(bs[lo:hi])
}

// ---- equality

func (in *Interp) strEq(a, b Value) Value {
	if x, ok := a.(string); ok {
		if y, ok := b.(string); ok {
			return x == y
		}
	}
	t := in.ropeEq(chunksOf(a), chunksOf(b))
	if t.IsConst() {
		return t.IsTrue()
	}
	return t
}

func inClass(c byte, class string) bool { return strings.IndexByte(class, c) >= 0 }

func unionClass(a, b string) string { return a + b }

// delimited reports whether what follows an atom (rest) starts outside class.
func delimited(rest []Chunk, class string) bool {
	if len(rest) == 0 {
		return true
	}
	c := rest[0]
	if c.isLit() {
		return !inClass(c.lit[0], class)
	}
	if c.atom != nil && c.atom.kind == "quote" {
		return !inClass('"', class)
	}
	return false
}

func (in *Interp) undecided(why string) *Term {
	panic(pathAbort{"undecided: string comparison " + why})
}

func (in *Interp) ropeEq(a, b []Chunk) *Term {
	ts := in.ts
	var conj []*Term
	for {
		if len(a) == 0 && len(b) == 0 {
			return ts.And(append(conj, ts.Bool(true))...)
		}
		if len(a) == 0 || len(b) == 0 {
			// every chunk renders at least one byte
			return ts.Bool(false)
		}
		x, y := a[0], b[0]
		switch {
		case x.isLit() && y.isLit():
			n := len(x.lit)
			if len(y.lit) < n {
				n = len(y.lit)
			}
			if x.lit[:n] != y.lit[:n] {
				return ts.Bool(false)
			}
			a = advanceLit(a, n)
			b = advanceLit(b, n)
		case x.b != nil && y.b != nil:
			conj = append(conj, ts.Eq(x.b, y.b))
			a, b = a[1:], b[1:]
		case x.b != nil && y.isLit():
			conj = append(conj, ts.Eq(x.b, ts.BV(8, uint64(y.lit[0]))))
			a = a[1:]
			b = advanceLit(b, 1)
		case x.isLit() && y.b != nil:
			conj = append(conj, ts.Eq(y.b, ts.BV(8, uint64(x.lit[0]))))
			b = b[1:]
			a = advanceLit(a, 1)
		case x.atom != nil && y.atom != nil:
			if x.atom.kind == "quote" || y.atom.kind == "quote" {
				if x.atom.kind != y.atom.kind {
					// a quoted literal starts with '"'; no other atom can
					return ts.Bool(false)
				}
				conj = append(conj, in.ropeEq(chunksOf(x.atom.r), chunksOf(y.atom.r)))
				a, b = a[1:], b[1:]
				continue
			}
			if x.atom.id == y.atom.id || (x.atom.kind == "opaque" && y.atom.kind == "opaque" && x.atom.key != "" && x.atom.key == y.atom.key) {
				a, b = a[1:], b[1:]
				continue
			}
			cx, okx := atomClass(x.atom)
			cy, oky := atomClass(y.atom)
			if !okx || !oky {
				return in.undecided("between " + x.atom.describe() + " and " + y.atom.describe())
			}
			u := unionClass(cx, cy)
			if !delimited(a[1:], u) || !delimited(b[1:], u) {
				return in.undecided("atoms not delimited: " + ropeDesc(&Rope{a}) + " vs " + ropeDesc(&Rope{b}))
			}
			conj = append(conj, in.atomEq(x.atom, y.atom))
			a, b = a[1:], b[1:]
		case x.atom != nil && y.isLit():
			t, na, nb := in.atomVsLit(a, b)
			if t.IsFalse() {
				return t
			}
			conj = append(conj, t)
			a, b = na, nb
		case x.isLit() && y.atom != nil:
			t, nb, na := in.atomVsLit(b, a)
			if t.IsFalse() {
				return t
			}
			conj = append(conj, t)
			a, b = na, nb
		default:
			return in.undecided("between a symbolic byte and " + ropeDesc(&Rope{a}) + " / " + ropeDesc(&Rope{b}))
		}
		if len(conj) > 0 && conj[len(conj)-1].IsFalse() {
			return ts.Bool(false)
		}
	}
}

func advanceLit(a []Chunk, n int) []Chunk {
	if n == len(a[0].lit) {
		return a[1:]
	}
	out := make([]Chunk, len(a))
	copy(out, a)
	out[0] = Chunk{lit: a[0].lit[n:]}
	return out
}

// atomVsLit: a starts with an atom, b with a literal.
func (in *Interp) atomVsLit(a, b []Chunk) (*Term, []Chunk, []Chunk) {
	ts := in.ts
	at := a[0].atom
	lit := b[0].lit
	if at.kind == "quote" {
		if lit[0] != '"' {
			return ts.Bool(false), nil, nil
		}
		pre, err := strconv.QuotedPrefix(lit)
		if err != nil {
			// the literal may continue in the next chunk; not produced by yae renderings
			return in.undecided("quoted literal split across chunks"), nil, nil
		}
		content, err := strconv.Unquote(pre)
		if err != nil || strconv.Quote(content) != pre {
			return ts.Bool(false), nil, nil
		}
		return in.ropeEq(chunksOf(at.r), chunksOf(content)), a[1:], advanceLit(b, len(pre))
	}
	class, ok := atomClass(at)
	if !ok {
		return in.undecided("between " + at.describe() + " and a literal"), nil, nil
	}
	n := 0
	for n < len(lit) && inClass(lit[n], class) {
		n++
	}
	if n == 0 {
		return ts.Bool(false), nil, nil
	}
	if n == len(lit) && len(b) > 1 {
		return in.undecided("literal run not delimited"), nil, nil
	}
	if !delimited(a[1:], class) {
		return in.undecided("atom not delimited: " + ropeDesc(&Rope{a})), nil, nil
	}
	pre := lit[:n]
	var t *Term
	switch at.kind {
	case "fmtint":
		v, err := strconv.ParseInt(pre, 10, 64)
		if err != nil || strconv.FormatInt(v, 10) != pre {
			t = ts.Bool(false)
		} else {
			t = in.intCmp("=", at.t, ts.BV(64, uint64(v)))
		}
	case "fmtfloat":
		f, err := strconv.ParseFloat(pre, 64)
		if err != nil || strconv.FormatFloat(f, 'f', -1, 64) != pre {
			t = ts.Bool(false)
		} else {
			t = ts.Eq(at.t, ts.F64(f))
		}
	case "fmtbool":
		switch pre {
		case "true":
			t = at.t
		case "false":
			t = ts.Not(at.t)
		default:
			t = ts.Bool(false)
		}
	}
	return t, a[1:], advanceLit(b, n)
}

func (in *Interp) atomEq(x, y *Atom) *Term {
	ts := in.ts
	if x.kind == y.kind {
		switch x.kind {
		case "fmtint":
			return in.intCmp("=", x.t, y.t)
		case "fmtfloat", "fmtbool":
			return ts.Eq(x.t, y.t)
		}
	}
	if x.kind == "fmtfloat" && y.kind == "fmtint" {
		x, y = y, x
	}
	if x.kind == "fmtint" && y.kind == "fmtfloat" {
		// FormatInt(a) == FormatFloat(f,'f',-1): f integral, not -0, exactly a
		f, a := y.t, x.t
		lim := ts.F64(9223372036854775808.0)
		integral := ts.Mk("fp.eq", SBool, f, ts.Mk("fp.roundToIntegral RTZ", SF64, f))
		inRange := ts.And(ts.Mk("fp.lt", SBool, f, lim), ts.Mk("fp.geq", SBool, f, ts.F64(-9223372036854775808.0)))
		negZero := ts.Eq(f, ts.F64(math.Copysign(0, -1)))
		if src, ok := in.f2iSrc[a.id]; ok {
			// a = int64(y): equal renderings iff f is that same integer as a double
			return ts.And(integral, inRange, ts.Not(negZero), ts.Mk("fp.eq", SBool, f, src))
		}
		return ts.And(integral, inRange, ts.Not(negZero), ts.Eq(ts.Mk("(_ fp.to_sbv 64) RTZ", SBV(64), f), a))
	}
	if x.kind == "fmtbool" || y.kind == "fmtbool" {
		return ts.Bool(false) // "true"/"false" never equal a number rendering
	}
	if x.kind == "opaque" && y.kind == "opaque" && x.key != "" && x.key == y.key {
		return ts.Bool(true) // the same function of the same terms
	}
	return in.undecided("between " + x.describe() + " and " + y.describe())
}

// ---- ordering

// strLess decides a < b. Concrete prefixes are compared natively; a
// comparison that depends on symbolic parts becomes an uninterpreted but
// consistent order (fresh Bool per unordered pair, antisymmetric).
func (in *Interp) strLess(a, b Value) Value {
	if x, ok := a.(string); ok {
		if y, ok := b.(string); ok {
			return x < y
		}
	}
	ca, cb := chunksOf(a), chunksOf(b)
	// strip the common literal prefix
	for len(ca) > 0 && len(cb) > 0 && ca[0].isLit() && cb[0].isLit() {
		x, y := ca[0].lit, cb[0].lit
		n := len(x)
		if len(y) < n {
			n = len(y)
		}
		if x[:n] != y[:n] {
			return x[:n] < y[:n]
		}
		ca, cb = advanceLit(ca, n), advanceLit(cb, n)
	}
	if len(ca) == 0 {
		return len(cb) > 0
	}
	if len(cb) == 0 {
		return false
	}
	if ca[0].b != nil && cb[0].b != nil && len(ca) == 1 && len(cb) == 1 {
		return in.ts.Mk("bvult", SBool, ca[0].b, cb[0].b)
	}
	eq := in.ropeEq(ca, cb)
	if eq.IsTrue() {
		return false
	}
	ka, kb := ropeDesc(&Rope{ca}), ropeDesc(&Rope{cb})
	flip := false
	if ka > kb {
		ka, kb = kb, ka
		flip = true
	}
	key := ka + "\x00<\x00" + kb
	v, ok := in.orderVars[key]
	if !ok {
		v = in.ts.Fresh("strlt", SBool)
		in.orderVars[key] = v
		in.note("assumption: order of strings with symbolic parts is an arbitrary consistent strict order")
	}
	// lt(lo,hi) = v ∧ ¬eq ; lt(hi,lo) = ¬v ∧ ¬eq
	if flip {
		return in.ts.And(in.ts.Not(v), in.ts.Not(eq))
	}
	return in.ts.And(v, in.ts.Not(eq))
}

// ---- iteration

type strIter struct {
	bs []Value
	s  string
	i  int
	// concrete fast path when bs == nil
}

func (in *Interp) strIterNext(it *strIter) Tuple {
	if it.bs == nil {
		if it.i >= len(it.s) {
			return Tuple{false, int64(0), int64(0)}
		}
		r, w := utf8.DecodeRuneInString(it.s[it.i:])
		k := it.i
		it.i += w
		return Tuple{true, int64(k), int64(r)}
	}
	if it.i >= len(it.bs) {
		return Tuple{false, int64(0), int64(0)}
	}
	k := it.i
	switch b := it.bs[k].(type) {
	case int64:
		if b < utf8.RuneSelf {
			it.i++
			return Tuple{true, int64(k), b}
		}
		// concrete multi-byte sequence: all continuation bytes must be concrete
		var buf []byte
		for j := k; j < len(it.bs) && j < k+4; j++ {
			c, ok := it.bs[j].(int64)
			if !ok {
				break
			}
			buf = append(buf, byte(c))
		}
		r, w := utf8.DecodeRune(buf)
		if w > len(buf) || (r == utf8.RuneError && w == 1 && k+1 < len(it.bs)) {
			if _, ok := it.bs[k+1].(*Term); ok {
				panic(pathAbort{"unsupported: multi-byte sequence continued by a symbolic byte"})
			}
		}
		it.i += w
		return Tuple{true, int64(k), int64(r)}
	case *Term:
		// symbolic byte: ASCII, or a lone invalid byte (U+FFFD) when it is
		// >= 0x80 and cannot start a sequence with what follows; we support
		// the ASCII side and the "invalid lone byte" side when followed by
		// ASCII/end.
		ascii := in.ts.Mk("bvult", SBool, b, in.ts.BV(8, 0x80))
		if in.decide(ascii) {
			it.i++
			return Tuple{true, int64(k), in.ts.Mk("(_ zero_extend 24)", SBV(32), b)}
		}
		// >= 0x80: valid leading byte only if continuation bytes follow
		nextIsCont := false
		if k+1 < len(it.bs) {
			switch nb := it.bs[k+1].(type) {
			case int64:
				nextIsCont = nb >= 0x80 && nb < 0xC0
			case *Term:
				nextIsCont = true // may be
			}
		}
		if nextIsCont {
			panic(pathAbort{"unsupported: symbolic non-ASCII byte followed by a possible continuation byte"})
		}
		it.i++
		return Tuple{true, int64(k), int64(utf8.RuneError)}
	}
	panic("strIterNext")
}
