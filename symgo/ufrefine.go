package main

// Refinement of uninterpreted stubs by native evaluation.
//
// math.Pow, math.Mod and their kin applied to symbolic operands are
// uninterpreted, functionally consistent functions for the solver: the result
// is an arbitrary value. A counterexample that depends on such a result is
// only a candidate - natively the function has ONE value. Before a candidate
// goes to the native replay, the engine therefore looks for an assignment of
// the real inputs under which the assertion fails *with the stubs computed by
// the real functions* (which the engine, being a Go program, can call):
// first the solver's own inputs, then a few hundred boundary-value variants
// (the witness search of guess.go). Finding one yields a counterexample that
// will reproduce; finding none leaves the solver's candidate to the replay,
// which then reports it as unconfirmed (inconclusive) as before. Nothing is
// ever concluded from not finding one.

import (
	"math"
	"math/rand"
)

type ufApp struct {
	fn   string
	args []Value // *Term or float64/int64
	res  *Term
}

func nativeUF(fn string, a []float64) (float64, bool) {
	switch fn {
	case "math.Pow":
		return math.Pow(a[0], a[1]), true
	case "math.Mod":
		return math.Mod(a[0], a[1]), true
	case "math.Sqrt":
		return math.Sqrt(a[0]), true
	case "math.Log":
		return math.Log(a[0]), true
	case "math.Exp":
		return math.Exp(a[0]), true
	case "math.Log2":
		return math.Log2(a[0]), true
	case "math.Log10":
		return math.Log10(a[0]), true
	case "math.Sin":
		return math.Sin(a[0]), true
	case "math.Cos":
		return math.Cos(a[0]), true
	}
	return 0, false
}

// completeUF assigns every stub result in m its native value (in creation
// order, so that stubs applied to stub results work). false = some stub has no
// native counterpart or an argument cannot be evaluated.
func (in *Interp) completeUF(m map[string]uint64) bool {
	memo := map[int]uint64{}
	for _, app := range in.ufApps {
		if app.res.sort != SF64 {
			return false
		}
		fa := make([]float64, len(app.args))
		for i, a := range app.args {
			switch x := a.(type) {
			case float64:
				fa[i] = x
			case *Term:
				if x.sort != SF64 {
					return false
				}
				bits, ok := x.Eval(m, memo)
				if !ok {
					return false
				}
				fa[i] = math.Float64frombits(bits)
			default:
				return false
			}
		}
		r, ok := nativeUF(app.fn, fa)
		if !ok {
			return false
		}
		m[app.res.name] = math.Float64bits(r)
		memo = map[int]uint64{} // the assignment changed
	}
	return true
}

// refineUF: q is satisfiable for the solver (model m0). Returns a model under
// which pc ∧ q holds with native stub values, or nil.
func (in *Interp) refineUF(q *Term, m0 map[string]uint64) map[string]uint64 {
	if len(in.ufApps) == 0 {
		return nil
	}
	vars := map[string]*Term{}
	seen := map[int]bool{}
	q.Vars(seen, vars)
	for _, t := range in.pc {
		t.Vars(seen, vars)
	}
	isUF := map[string]bool{}
	for _, a := range in.ufApps {
		isUF[a.res.name] = true
	}
	usesUF := false
	var inputs []string
	for n := range vars {
		if isUF[n] {
			usesUF = true
		} else {
			inputs = append(inputs, n)
		}
	}
	if !usesUF || len(inputs) == 0 {
		return nil
	}
	if in.rng == nil {
		in.rng = rand.New(rand.NewSource(int64(in.cfg.Seed) + 12345))
	}
	try := func(m map[string]uint64) bool {
		if !in.completeUF(m) {
			return false
		}
		memo := map[int]uint64{}
		if v, ok := q.Eval(m, memo); !ok || v != 1 {
			return false
		}
		for _, t := range in.pc {
			if v, ok := t.Eval(m, memo); !ok || v != 1 {
				return false
			}
		}
		return true
	}
	base := map[string]uint64{}
	for k, v := range m0 {
		if !isUF[k] {
			base[k] = v
		}
	}
	cp := func() map[string]uint64 {
		m := map[string]uint64{}
		for k, v := range base {
			m[k] = v
		}
		return m
	}
	if m := cp(); try(m) {
		return m
	}
	for a := 0; a < 600; a++ {
		m := cp()
		nmut := 1 + in.rng.Intn(len(inputs))
		if a < 200 && nmut > 2 {
			nmut = 2
		}
		for k := 0; k < nmut; k++ {
			n := inputs[in.rng.Intn(len(inputs))]
			v := vars[n]
			var others []uint64
			for _, on := range inputs {
				if on != n && vars[on].sort == v.sort {
					others = append(others, m[on])
				}
			}
			m[n] = in.randBits(in.rng, v, m, others)
		}
		if try(m) {
			return m
		}
	}
	return nil
}
