package main

import (
	"fmt"
	"go/token"
	"go/types"
	"math"
	"unicode/utf8"

	"golang.org/x/tools/go/ssa"
)

func (in *Interp) eval(fr *Frame, v ssa.Value) Value {
	switch i := v.(type) {
	case *ssa.Alloc:
		c := newCell(zero(i.Type().(*types.Pointer).Elem()), nil, 0)
		fixParents(c)
		return Ptr{c: c}
	case *ssa.BinOp:
		return in.binop(i.Op, in.get(fr, i.X), in.get(fr, i.Y), i.X.Type(), i.Y.Type())
	case *ssa.UnOp:
		x := in.get(fr, i.X)
		switch i.Op {
		case token.MUL:
			return in.load(x.(Ptr))
		case token.NOT:
			if t, ok := x.(*Term); ok {
				return in.ts.Not(t)
			}
			return !x.(bool)
		case token.SUB:
			switch a := x.(type) {
			case int64:
				return wrap(-a, i.Type())
			case float64:
				return -a
			case *Term:
				if a.sort.IsFP() {
					return in.ts.Mk("fp.neg", a.sort, a)
				}
				return in.ts.Mk("bvneg", a.sort, a)
			}
		case token.XOR:
			switch a := x.(type) {
			case int64:
				return wrap(^a, i.Type())
			case *Term:
				return in.ts.Mk("bvnot", a.sort, a)
			}
		}
		panic(pathAbort{"unsupported: unary " + i.Op.String()})
	case *ssa.Call:
		fnv := in.callee(fr, &i.Call)
		args := in.args(fr, &i.Call)
		return in.callv(fr, fnv, args, &i.Call)
	case *ssa.ChangeInterface:
		return in.get(fr, i.X)
	case *ssa.ChangeType:
		return in.get(fr, i.X)
	case *ssa.Convert:
		return in.convert(in.get(fr, i.X), i.X.Type(), i.Type())
	case *ssa.MultiConvert:
		return in.convert(in.get(fr, i.X), i.X.Type(), i.Type())
	case *ssa.Extract:
		return in.get(fr, i.Tuple).(Tuple)[i.Index]
	case *ssa.Field:
		return in.get(fr, i.X).(*Struct).fields[i.Field].v
	case *ssa.FieldAddr:
		p := in.get(fr, i.X).(Ptr)
		if p.c == nil {
			panic(rtPanic("rt:nil", "invalid memory address or nil pointer dereference"))
		}
		want := i.X.Type().Underlying().(*types.Pointer).Elem()
		if p.view != nil {
			// pointer obtained by a variant cast that did not match the object
			if i.Field == 0 {
				if s, ok := p.c.v.(*Struct); ok {
					f0 := want.Underlying().(*types.Struct).Field(0).Type()
					if types.Identical(s.typ, f0) {
						return Ptr{c: p.c}
					}
				}
			}
			in.castEvent(fmt.Sprintf("access to field %s of %s on an object that is %s",
				want.Underlying().(*types.Struct).Field(i.Field).Name(), want, describeCell(p.c)))
		}
		s, ok := p.c.v.(*Struct)
		if !ok {
			panic(fmt.Sprintf("engine: FieldAddr on non-struct cell %T in %s", p.c.v, fr.fn))
		}
		if !types.Identical(s.typ.Underlying(), want.Underlying()) {
			in.castEvent(fmt.Sprintf("access: object is %s, accessed as %s", s.typ, want))
		}
		return Ptr{c: s.fields[i.Field]}
	case *ssa.Index:
		x := in.get(fr, i.X)
		iv := in.get(fr, i.Index)
		switch a := x.(type) {
		case *Array:
			k := in.concreteIndex(iv, len(a.elems))
			return a.elems[k].v
		case string, *Rope:
			k, ok := iv.(int64)
			if !ok {
				k = int64(in.concretize(iv.(*Term), "string index"))
			}
			return in.strIndex(a, k)
		}
		panic(pathAbort{fmt.Sprintf("unsupported: Index on %T", x)})
	case *ssa.IndexAddr:
		x := in.get(fr, i.X)
		iv := in.get(fr, i.Index)
		switch a := x.(type) {
		case Slice:
			k := in.concreteIndex(iv, a.len)
			return Ptr{c: a.arr.elems[a.off+k]}
		case Ptr:
			if a.c == nil {
				panic(rtPanic("rt:nil", "invalid memory address or nil pointer dereference"))
			}
			arr := a.c.v.(*Array)
			k := in.concreteIndex(iv, len(arr.elems))
			return Ptr{c: arr.elems[k]}
		}
		panic(pathAbort{fmt.Sprintf("unsupported: IndexAddr on %T", x)})
	case *ssa.Lookup:
		x := in.get(fr, i.X)
		switch s := x.(type) {
		case string, *Rope:
			iv := in.get(fr, i.Index)
			k, ok := iv.(int64)
			if !ok {
				k = int64(in.concretize(iv.(*Term), "string index"))
			}
			return in.strIndex(s, k)
		}
		m := x.(*Map)
		e, found := in.mapFind(m, in.get(fr, i.Index))
		var val Value
		if found {
			val = copyVal(e.v)
		} else {
			val = zero(i.X.Type().Underlying().(*types.Map).Elem())
		}
		if i.CommaOk {
			return Tuple{val, found}
		}
		return val
	case *ssa.MakeClosure:
		env := make([]Value, len(i.Bindings))
		for k, b := range i.Bindings {
			env[k] = in.get(fr, b)
		}
		return &Closure{fn: i.Fn.(*ssa.Function), env: env}
	case *ssa.MakeInterface:
		return Iface{t: i.X.Type(), v: in.get(fr, i.X)}
	case *ssa.MakeMap:
		return &Map{idx: map[string]int{}, epoch: in.epoch}
	case *ssa.MakeChan:
		return Ptr{c: newCell(Host{"chan"}, nil, 0)} // opaque: only its type matters (reflect kinds)
	case *ssa.MakeSlice:
		n := in.concreteInt(in.get(fr, i.Len), "make len")
		c := in.concreteInt(in.get(fr, i.Cap), "make cap")
		if n < 0 || c < n {
			panic(rtPanic("rt:other", "makeslice: len out of range"))
		}
		if c > 1<<22 {
			panic(pathAbort{"unsupported: make of more than 4M elements"})
		}
		et := i.Type().Underlying().(*types.Slice).Elem()
		return Slice{newArray(et, c), 0, n, c}
	case *ssa.Slice:
		return in.slice(fr, i)
	case *ssa.SliceToArrayPointer:
		s := in.get(fr, i.X).(Slice)
		if s.arr == nil {
			return Ptr{}
		}
		if s.off != 0 {
			panic(pathAbort{"unsupported: slice-to-array-pointer with offset"})
		}
		return Ptr{c: newCell(s.arr, nil, 0)}
	case *ssa.TypeAssert:
		x := in.get(fr, i.X).(Iface)
		ok := false
		_, isIface := i.AssertedType.Underlying().(*types.Interface)
		if x.t != nil {
			if isIface {
				ok = in.implements(x, i.AssertedType.Underlying().(*types.Interface))
			} else {
				ok = types.Identical(x.t, i.AssertedType)
			}
		}
		var res Value
		if ok {
			if isIface {
				res = x
			} else {
				res = x.v
			}
		} else {
			res = zero(i.AssertedType)
		}
		if i.CommaOk {
			return Tuple{res, ok}
		}
		if !ok {
			if x.t == nil {
				panic(rtPanic("rt:typeassert", fmt.Sprintf("interface conversion: interface is nil, not %v", i.AssertedType)))
			}
			panic(rtPanic("rt:typeassert", fmt.Sprintf("interface conversion: interface {} is %v, not %v", x.t, i.AssertedType)))
		}
		return res
	case *ssa.Range:
		x := in.get(fr, i.X)
		switch a := x.(type) {
		case *Map:
			return in.mapRange(a)
		case string:
			return &strIter{s: a}
		case *Rope:
			return &strIter{bs: strBytes(a)}
		}
		panic(pathAbort{fmt.Sprintf("unsupported: range over %T", x)})
	case *ssa.Next:
		switch it := in.get(fr, i.Iter).(type) {
		case *mapIter:
			for it.i < len(it.ents) {
				e := it.ents[it.i]
				it.i++
				if !e.deleted {
					return Tuple{true, e.k, copyVal(e.v)}
				}
			}
			return Tuple{false, nil, nil}
		case *strIter:
			return in.strIterNext(it)
		}
		panic("engine: next")
	}
	panic(pathAbort{fmt.Sprintf("unsupported: SSA value %T in %s", v, fr.fn)})
}

func (in *Interp) implements(x Iface, it *types.Interface) bool {
	if _, ok := x.v.(*synthErr); ok {
		// synthetic error values implement error (and runtime.Error when flagged)
		return it.NumMethods() == 0 || (it.NumMethods() == 1 && it.Method(0).Name() == "Error") ||
			(x.v.(*synthErr).runtime && it.NumMethods() == 2)
	}
	return types.Implements(x.t, it)
}

func newArray(et types.Type, n int) *Array {
	arr := &Array{elems: make([]*Cell, n)}
	_, agg := et.Underlying().(*types.Struct)
	if !agg {
		_, agg = et.Underlying().(*types.Array)
	}
	var z Value
	if !agg {
		z = zero(et)
	}
	for k := 0; k < n; k++ {
		if agg {
			ce := newCell(zero(et), nil, k)
			fixParents(ce)
			arr.elems[k] = ce
		} else {
			arr.elems[k] = &Cell{v: z, idx: k}
		}
	}
	return arr
}

// concreteIndex turns an index into a concrete in-range int, case-splitting a
// symbolic index over the concrete length (bounds check = path decision).
func (in *Interp) concreteIndex(iv Value, n int) int {
	switch x := iv.(type) {
	case int64:
		if x < 0 || x >= int64(n) {
			panic(rtPanic("rt:index", fmt.Sprintf("index out of range [%d] with length %d", x, n)))
		}
		return int(x)
	case *Term:
		t := x
		if t.sort.Width() < 64 {
			t = in.ts.Mk(fmt.Sprintf("(_ sign_extend %d)", 64-t.sort.Width()), SBV(64), t)
		}
		if n > in.cfg.MaxIndexSplit {
			return in.sampledIndex(t, n)
		}
		k := in.branch(n+1, "", func(k int) *Term {
			if k < n {
				return in.intCmp("=", t, in.ts.BV(64, uint64(k)))
			}
			return in.ts.Or(in.intCmp("bvslt", t, in.ts.BV(64, 0)), in.intCmp("bvsge", t, in.ts.BV(64, uint64(n))))
		})
		if k == n {
			panic(&GoPanic{rt: fmt.Sprintf("index out of range [%s] with length %d", "symbolic", n), class: "rt:index"})
		}
		return k
	}
	panic(fmt.Sprintf("engine: index %T", iv))
}

// sampledIndex handles a symbolic index into a table too large to case-split:
// a fixed (re-execution-stable) candidate list is explored — both ends, the
// middle, and the integer constants that occur in the index term itself (the
// offset of `tab[i+128]`) with their neighbours — and the remainder of the
// index domain, if feasible, is given up as unsupported, which keeps the
// harness INCONCLUSIVE unless one of the explored positions is a violation.
func (in *Interp) sampledIndex(t *Term, n int) int {
	cand := []int{0, 1, n - 1, n / 2}
	seen := map[int]bool{}
	var consts func(x *Term, depth int)
	consts = func(x *Term, depth int) {
		if depth > 6 || len(cand) > 24 {
			return
		}
		if x.IsConst() && x.sort != SBool && x.sort.Width() <= 64 && !x.sort.IsFP() {
			c := signExt(x.cbits, x.sort.Width())
			for _, d := range []int64{0, -1, 1} {
				if v := c + d; v >= 0 && v < int64(n) {
					cand = append(cand, int(v))
				}
				if v := -c + d; v >= 0 && v < int64(n) {
					cand = append(cand, int(v))
				}
			}
		}
		for _, a := range x.args {
			consts(a, depth+1)
		}
	}
	consts(t, 0)
	var cs []int
	for _, c := range cand {
		if c >= 0 && c < n && !seen[c] {
			seen[c] = true
			cs = append(cs, c)
		}
	}
	m := len(cs)
	k := in.branch(m+2, "", func(k int) *Term {
		switch {
		case k < m:
			return in.intCmp("=", t, in.ts.BV(64, uint64(cs[k])))
		case k == m:
			return in.ts.Or(in.intCmp("bvslt", t, in.ts.BV(64, 0)), in.intCmp("bvsge", t, in.ts.BV(64, uint64(n))))
		}
		conj := []*Term{in.intCmp("bvsge", t, in.ts.BV(64, 0)), in.intCmp("bvslt", t, in.ts.BV(64, uint64(n)))}
		for _, c := range cs {
			conj = append(conj, in.ts.Not(in.intCmp("=", t, in.ts.BV(64, uint64(c)))))
		}
		return in.ts.And(conj...)
	})
	if k == m {
		panic(&GoPanic{rt: fmt.Sprintf("index out of range [%s] with length %d", "symbolic", n), class: "rt:index"})
	}
	if k == m+1 {
		panic(pathAbort{fmt.Sprintf("unsupported: symbolic index into %d elements (%d sampled positions explored)", n, m)})
	}
	return cs[k]
}

func (in *Interp) concreteInt(v Value, what string) int {
	switch x := v.(type) {
	case int64:
		return int(x)
	case *Term:
		return in.concretize(x, what)
	}
	panic(fmt.Sprintf("engine: int %T", v))
}

// concretize picks the values of a symbolic integer one by one (bounded):
// a decision per distinct feasible value, up to cfg.MaxConcretize.
func (in *Interp) concretize(t *Term, what string) int {
	if t.IsConst() {
		return int(signExt(t.cbits, t.sort.Width()))
	}
	panic(pathAbort{"unsupported: symbolic " + what + " (" + t.Pretty(3) + ")"})
}

func (in *Interp) slice(fr *Frame, i *ssa.Slice) Value {
	x := in.get(fr, i.X)
	geti := func(v ssa.Value, def int) int {
		if v == nil {
			return def
		}
		return in.concreteInt(in.get(fr, v), "slice bound")
	}
	switch a := x.(type) {
	case string, *Rope:
		lo := geti(i.Low, 0)
		if i.High == nil {
			return in.strSlice(a, int64(lo), 0, false)
		}
		return in.strSlice(a, int64(lo), int64(geti(i.High, 0)), true)
	case Slice:
		lo, hi := geti(i.Low, 0), geti(i.High, a.len)
		mx := geti(i.Max, a.cap)
		if lo < 0 || hi > a.cap || lo > hi || mx > a.cap || hi > mx {
			panic(rtPanic("rt:index", fmt.Sprintf("slice bounds out of range [%d:%d] with capacity %d", lo, hi, a.cap)))
		}
		if a.arr == nil {
			return Slice{}
		}
		return Slice{a.arr, a.off + lo, hi - lo, mx - lo}
	case Ptr:
		if a.c == nil {
			panic(rtPanic("rt:nil", "invalid memory address or nil pointer dereference"))
		}
		arr := a.c.v.(*Array)
		lo, hi := geti(i.Low, 0), geti(i.High, len(arr.elems))
		mx := geti(i.Max, len(arr.elems))
		if lo < 0 || hi > len(arr.elems) || lo > hi {
			panic(rtPanic("rt:index", "slice bounds out of range"))
		}
		return Slice{arr, lo, hi - lo, mx - lo}
	}
	panic(pathAbort{fmt.Sprintf("unsupported: slice of %T", x)})
}

func wrap(v int64, t types.Type) int64 {
	b, ok := t.Underlying().(*types.Basic)
	if !ok {
		return v
	}
	switch b.Kind() {
	case types.Int8:
		return int64(int8(v))
	case types.Int16:
		return int64(int16(v))
	case types.Int32:
		return int64(int32(v))
	case types.Uint8:
		return int64(uint8(v))
	case types.Uint16:
		return int64(uint16(v))
	case types.Uint32:
		return int64(uint32(v))
	}
	return v
}

func bits(t types.Type) (int, bool) { // width, signed
	b, ok := t.Underlying().(*types.Basic)
	if !ok {
		return 64, true
	}
	switch b.Kind() {
	case types.Int8:
		return 8, true
	case types.Int16:
		return 16, true
	case types.Int32, types.UntypedRune:
		return 32, true
	case types.Uint8:
		return 8, false
	case types.Uint16:
		return 16, false
	case types.Uint32:
		return 32, false
	case types.Uint, types.Uint64, types.Uintptr:
		return 64, false
	}
	return 64, true
}

func isFloat32(t types.Type) bool {
	b, ok := t.Underlying().(*types.Basic)
	return ok && b.Kind() == types.Float32
}

func (in *Interp) lift(v Value, t types.Type) *Term {
	switch a := v.(type) {
	case *Term:
		return a
	case bool:
		return in.ts.Bool(a)
	case float64:
		if isFloat32(t) {
			return in.ts.F32(float32(a))
		}
		return in.ts.F64(a)
	case int64:
		w, _ := bits(t)
		return in.ts.BV(w, uint64(a))
	}
	panic(fmt.Sprintf("engine: lift %T", v))
}

func (in *Interp) binop(op token.Token, x, y Value, xt, yt types.Type) Value {
	_, xs := x.(*Term)
	_, ys := y.(*Term)
	if xs || ys {
		return in.symBinop(op, in.lift(x, xt), in.lift(y, yt), xt, yt)
	}
	switch a := x.(type) {
	case int64:
		b := y.(int64)
		_, signed := bits(xt)
		switch op {
		case token.ADD:
			return wrap(a+b, xt)
		case token.SUB:
			return wrap(a-b, xt)
		case token.MUL:
			return wrap(a*b, xt)
		case token.QUO:
			if b == 0 {
				panic(rtPanic("rt:divide", "integer divide by zero"))
			}
			if !signed {
				return int64(uint64(a) / uint64(b))
			}
			if b == -1 {
				return wrap(-a, xt)
			}
			return wrap(a/b, xt)
		case token.REM:
			if b == 0 {
				panic(rtPanic("rt:divide", "integer divide by zero"))
			}
			if !signed {
				return int64(uint64(a) % uint64(b))
			}
			if b == -1 {
				return int64(0)
			}
			return wrap(a%b, xt)
		case token.AND:
			return a & b
		case token.OR:
			return a | b
		case token.XOR:
			return a ^ b
		case token.AND_NOT:
			return a &^ b
		case token.SHL:
			_, ysigned := bits(yt)
			if ysigned && b < 0 {
				panic(rtPanic("rt:other", "negative shift amount"))
			}
			if uint64(b) >= 64 {
				return int64(0)
			}
			return wrap(a<<uint64(b), xt)
		case token.SHR:
			_, ysigned := bits(yt)
			if ysigned && b < 0 {
				panic(rtPanic("rt:other", "negative shift amount"))
			}
			if !signed {
				if uint64(b) >= 64 {
					return int64(0)
				}
				return int64(uint64(a) >> uint64(b))
			}
			if uint64(b) >= 64 {
				b = 63
			}
			return a >> uint64(b)
		case token.EQL:
			return a == b
		case token.NEQ:
			return a != b
		case token.LSS:
			if !signed {
				return uint64(a) < uint64(b)
			}
			return a < b
		case token.LEQ:
			if !signed {
				return uint64(a) <= uint64(b)
			}
			return a <= b
		case token.GTR:
			if !signed {
				return uint64(a) > uint64(b)
			}
			return a > b
		case token.GEQ:
			if !signed {
				return uint64(a) >= uint64(b)
			}
			return a >= b
		}
	case float64:
		b := y.(float64)
		f32 := isFloat32(xt)
		rnd := func(f float64) float64 {
			if f32 {
				return float64(float32(f))
			}
			return f
		}
		switch op {
		case token.ADD:
			return rnd(a + b)
		case token.SUB:
			return rnd(a - b)
		case token.MUL:
			return rnd(a * b)
		case token.QUO:
			return rnd(a / b)
		case token.EQL:
			return a == b
		case token.NEQ:
			return a != b
		case token.LSS:
			return a < b
		case token.LEQ:
			return a <= b
		case token.GTR:
			return a > b
		case token.GEQ:
			return a >= b
		}
	case string, *Rope:
		switch op {
		case token.ADD:
			return strConcat(x, y)
		case token.EQL:
			return in.strEq(x, y)
		case token.NEQ:
			return in.notV(in.strEq(x, y))
		case token.LSS:
			return in.strLess(x, y)
		case token.GTR:
			return in.strLess(y, x)
		case token.LEQ:
			return in.notV(in.strLess(y, x))
		case token.GEQ:
			return in.notV(in.strLess(x, y))
		}
	case bool:
		b := y.(bool)
		switch op {
		case token.EQL:
			return a == b
		case token.NEQ:
			return a != b
		}
	}
	switch op {
	case token.EQL:
		return in.valEq(x, y)
	case token.NEQ:
		return in.notV(in.valEq(x, y))
	}
	panic(pathAbort{fmt.Sprintf("unsupported: binop %s %T %T", op, x, y)})
}

func (in *Interp) notV(v Value) Value {
	switch b := v.(type) {
	case bool:
		return !b
	case *Term:
		return in.ts.Not(b)
	}
	panic("engine: notV")
}

func (in *Interp) andV(a, b Value) Value {
	if x, ok := a.(bool); ok {
		if !x {
			return false
		}
		return b
	}
	if y, ok := b.(bool); ok {
		if !y {
			return false
		}
		return a
	}
	return in.ts.And(a.(*Term), b.(*Term))
}

// valEq implements Go's == on dynamic values (bool or *Term).
func (in *Interp) valEq(x, y Value) Value {
	switch a := x.(type) {
	case nil:
		switch b := y.(type) {
		case nil:
			return true
		case *Closure:
			return b == nil
		}
		return false
	case *Closure:
		switch b := y.(type) {
		case nil:
			return a == nil
		case *Closure:
			if a == nil || b == nil {
				return a == nil && b == nil
			}
		}
		panic(rtPanic("rt:other", "comparing uncomparable type func"))
	case bool:
		switch b := y.(type) {
		case bool:
			return a == b
		case *Term:
			return in.ts.Eq(in.ts.Bool(a), b)
		}
	case int64:
		switch b := y.(type) {
		case int64:
			return a == b
		case *Term:
			return in.ts.Eq(in.ts.Const(b.sort, uint64(a)), b)
		}
	case float64:
		switch b := y.(type) {
		case float64:
			return a == b
		case *Term:
			if b.sort == SF32 {
				return in.ts.Mk("fp.eq", SBool, in.ts.F32(float32(a)), b)
			}
			return in.ts.Mk("fp.eq", SBool, in.ts.F64(a), b)
		}
	case *Term:
		switch b := y.(type) {
		case *Term:
			if a.sort.IsFP() {
				return in.ts.Mk("fp.eq", SBool, a, b)
			}
			return in.ts.Eq(a, b)
		case bool, int64, float64:
			return in.valEq(y, x)
		}
	case string, *Rope:
		return in.strEq(x, y)
	case Ptr:
		b, ok := y.(Ptr)
		if ok {
			if a.c == nil || b.c == nil {
				return a.c == b.c
			}
			return a.c == b.c || in.addrOf(a.c) == in.addrOf(b.c)
		}
	case *Map:
		if b, ok := y.(*Map); ok {
			return a == b
		}
	case Slice:
		if b, ok := y.(Slice); ok && (a.arr == nil || b.arr == nil) {
			return a.arr == nil && b.arr == nil
		}
	case Iface:
		b, ok := y.(Iface)
		if ok {
			if a.t == nil || b.t == nil {
				return a.t == nil && b.t == nil
			}
			if !types.Identical(a.t, b.t) {
				return false
			}
			return in.valEq(a.v, b.v)
		}
	case *Struct:
		b, ok := y.(*Struct)
		if ok && len(a.fields) == len(b.fields) {
			var acc Value = true
			for k := range a.fields {
				acc = in.andV(acc, in.valEq(a.fields[k].v, b.fields[k].v))
				if c, ok := acc.(bool); ok && !c {
					return false
				}
			}
			return acc
		}
	case *Array:
		b, ok := y.(*Array)
		if ok && len(a.elems) == len(b.elems) {
			var acc Value = true
			for k := range a.elems {
				acc = in.andV(acc, in.valEq(a.elems[k].v, b.elems[k].v))
			}
			return acc
		}
	case Host:
		if b, ok := y.(Host); ok {
			return a.v == b.v
		}
	case *synthErr:
		if b, ok := y.(*synthErr); ok {
			return a == b
		}
	case *RType:
		if b, ok := y.(*RType); ok {
			return types.Identical(a.t, b.t)
		}
	}
	panic(pathAbort{fmt.Sprintf("unsupported: == on %T and %T", x, y)})
}

func (in *Interp) symBinop(op token.Token, a, b *Term, xt, yt types.Type) Value {
	ts := in.ts
	switch {
	case a.sort.IsFP():
		switch op {
		case token.ADD:
			return ts.Mk("fp.add RNE", a.sort, a, b)
		case token.SUB:
			return ts.Mk("fp.sub RNE", a.sort, a, b)
		case token.MUL:
			return ts.Mk("fp.mul RNE", a.sort, a, b)
		case token.QUO:
			return ts.Mk("fp.div RNE", a.sort, a, b)
		case token.EQL:
			return ts.Mk("fp.eq", SBool, a, b)
		case token.NEQ:
			return ts.Not(ts.Mk("fp.eq", SBool, a, b))
		case token.LSS:
			return ts.Mk("fp.lt", SBool, a, b)
		case token.LEQ:
			return ts.Mk("fp.leq", SBool, a, b)
		case token.GTR:
			return ts.Mk("fp.gt", SBool, a, b)
		case token.GEQ:
			return ts.Mk("fp.geq", SBool, a, b)
		}
	case a.sort == SBool:
		switch op {
		case token.EQL:
			return ts.Eq(a, b)
		case token.NEQ:
			return ts.Not(ts.Eq(a, b))
		case token.AND:
			return ts.And(a, b)
		case token.OR:
			return ts.Or(a, b)
		}
	default:
		_, signed := bits(xt)
		pick := func(s, u string) string {
			if signed {
				return s
			}
			return u
		}
		if op == token.SHL || op == token.SHR {
			// bring the count to the operand width (counts are unsigned or checked non-negative)
			wa, wb := a.sort.Width(), b.sort.Width()
			if wb < wa {
				b = ts.Mk(fmt.Sprintf("(_ zero_extend %d)", wa-wb), a.sort, b)
			} else if wb > wa {
				// large counts saturate
				big := ts.Mk("bvuge", SBool, b, ts.BV(wb, uint64(wa)))
				lowb := ts.Mk(fmt.Sprintf("(_ extract %d 0)", wa-1), a.sort, b)
				b = ts.Ite(big, ts.BV(wa, uint64(wa)), lowb)
			}
		}
		switch op {
		case token.ADD:
			return ts.Mk("bvadd", a.sort, a, b)
		case token.SUB:
			return ts.Mk("bvsub", a.sort, a, b)
		case token.MUL:
			return ts.Mk("bvmul", a.sort, a, b)
		case token.QUO, token.REM:
			// Go panics on a zero divisor
			zero := in.intCmp("=", b, ts.Const(b.sort, 0))
			if in.decide(zero) {
				panic(rtPanic("rt:divide", "integer divide by zero"))
			}
			if op == token.QUO {
				return ts.Mk(pick("bvsdiv", "bvudiv"), a.sort, a, b)
			}
			return ts.Mk(pick("bvsrem", "bvurem"), a.sort, a, b)
		case token.AND:
			return ts.Mk("bvand", a.sort, a, b)
		case token.OR:
			return ts.Mk("bvor", a.sort, a, b)
		case token.XOR:
			return ts.Mk("bvxor", a.sort, a, b)
		case token.AND_NOT:
			return ts.Mk("bvand", a.sort, a, ts.Mk("bvnot", a.sort, b))
		case token.SHL:
			return ts.Mk("bvshl", a.sort, a, b)
		case token.SHR:
			return ts.Mk(pick("bvashr", "bvlshr"), a.sort, a, b)
		case token.EQL:
			return in.intCmp("=", a, b)
		case token.NEQ:
			return ts.Not(in.intCmp("=", a, b))
		case token.LSS:
			return in.intCmp(pick("bvslt", "bvult"), a, b)
		case token.LEQ:
			return in.intCmp(pick("bvsle", "bvule"), a, b)
		case token.GTR:
			return in.intCmp(pick("bvsgt", "bvugt"), a, b)
		case token.GEQ:
			return in.intCmp(pick("bvsge", "bvuge"), a, b)
		}
	}
	panic(pathAbort{"unsupported: symbolic binop " + op.String() + " on " + a.sort.String()})
}

// f2i encodes Go's float->int64 conversion on amd64 (CVTTSD2SQ): NaN, ±Inf
// and out-of-range values give 0x8000000000000000.
func (in *Interp) f2i(t *Term) *Term {
	ts := in.ts
	f := t
	if t.sort == SF32 {
		f = ts.Mk("(_ to_fp 11 53) RNE", SF64, t)
	}
	lim := ts.F64(9223372036854775808.0)
	bad := ts.Or(ts.Mk("fp.isNaN", SBool, f), ts.Mk("fp.geq", SBool, f, lim), ts.Mk("fp.lt", SBool, f, ts.F64(-9223372036854775808.0)))
	in.note("platform: float->int conversion of NaN/±Inf/out-of-range encoded as amd64 (0x8000000000000000)")
	r := ts.Ite(bad, ts.BV(64, 0x8000000000000000), ts.Mk("(_ fp.to_sbv 64) RTZ", SBV(64), f))
	// the same integer as a double: comparisons of converted values are
	// decided in floating point, without the conversion
	in.f2iSrc[r.id] = ts.Ite(bad, ts.F64(-9223372036854775808.0), ts.Mk("fp.roundToIntegral RTZ", SF64, f))
	return r
}

// intCmp builds a signed 64-bit comparison, rewriting comparisons between
// float->int conversions (and small constants) into floating point:
// int64(x) op int64(y)  <=>  T(x) op T(y) where T(x) = trunc(x), or -2^63 when
// the conversion saturates. op is "=", "bvslt", "bvsle", "bvsgt", "bvsge".
func (in *Interp) intCmp(op string, a, b *Term) *Term {
	ts := in.ts
	fpOf := func(t *Term) *Term {
		if f, ok := in.f2iSrc[t.id]; ok {
			return f
		}
		if t.IsConst() && t.sort == SBV(64) {
			v := signExt(t.cbits, 64)
			if v > -(1<<53) && v < (1<<53) {
				return ts.F64(float64(v))
			}
		}
		return nil
	}
	_, aIs := in.f2iSrc[a.id]
	_, bIs := in.f2iSrc[b.id]
	if (aIs || bIs) && a.sort == SBV(64) && b.sort == SBV(64) {
		fa, fb := fpOf(a), fpOf(b)
		if fa != nil && fb != nil {
			fop := map[string]string{"=": "fp.eq", "bvslt": "fp.lt", "bvsle": "fp.leq", "bvsgt": "fp.gt", "bvsge": "fp.geq"}[op]
			if fop != "" {
				return ts.Mk(fop, SBool, fa, fb)
			}
		}
	}
	if op == "=" {
		return ts.Eq(a, b)
	}
	return ts.Mk(op, SBool, a, b)
}

func f2iConcrete(f float64) int64 {
	if math.IsNaN(f) || f >= 9223372036854775808.0 || f < -9223372036854775808.0 {
		return math.MinInt64
	}
	return int64(f)
}

func (in *Interp) convert(x Value, from, to types.Type) Value {
	fb, fok := from.Underlying().(*types.Basic)
	tb, tok := to.Underlying().(*types.Basic)
	ts := in.ts
	// unsafe pointer conversions
	if tok && tb.Kind() == types.UnsafePointer {
		return x
	}
	if fok && fb.Kind() == types.UnsafePointer {
		p, isPtr := x.(Ptr)
		if !isPtr {
			panic(pathAbort{"unsupported: unsafe.Pointer made from an integer (uintptr round trip)"})
		}
		if p.c == nil {
			return p
		}
		pt, ok := to.Underlying().(*types.Pointer)
		if !ok {
			panic(pathAbort{"unsupported: unsafe.Pointer to " + to.String()})
		}
		want := pt.Elem()
		if _, isStruct := want.Underlying().(*types.Struct); !isStruct {
			// scalar reinterpretation *(*uint64)(unsafe.Pointer(&f))
			return Ptr{c: p.c, view: nil}.reinterpret(want)
		}
		// walk up parents while at field 0
		c := p.c
		for {
			if s, ok := c.v.(*Struct); ok && types.Identical(s.typ, want) {
				return Ptr{c: c}
			}
			if c.parent == nil || c.idx != 0 {
				break
			}
			if _, ok := c.parent.v.(*Struct); !ok {
				break
			}
			c = c.parent
		}
		return Ptr{c: p.c, view: want}
	}
	if t, ok := x.(*Term); ok {
		if !tok {
			panic(pathAbort{"unsupported: symbolic conversion to " + to.String()})
		}
		tw, _ := bits(to)
		switch {
		case t.sort.IsFP() && tb.Info()&types.IsInteger != 0:
			s := in.f2i(t)
			if tw < 64 {
				return ts.Mk(fmt.Sprintf("(_ extract %d 0)", tw-1), SBV(tw), s)
			}
			return s
		case t.sort.IsBV() && tb.Info()&types.IsFloat != 0:
			_, fsigned := bits(from)
			dst, head := SF64, "(_ to_fp 11 53) RNE"
			if tb.Kind() == types.Float32 {
				dst, head = SF32, "(_ to_fp 8 24) RNE"
			}
			if !fsigned {
				head = "(_ to_fp_unsigned" + head[len("(_ to_fp"):]
			}
			return ts.Mk(head, dst, t)
		case t.sort.IsBV() && tb.Info()&types.IsInteger != 0:
			fw, fsigned := bits(from)
			switch {
			case tw == fw:
				return t
			case tw < fw:
				return ts.Mk(fmt.Sprintf("(_ extract %d 0)", tw-1), SBV(tw), t)
			default:
				ext := "zero_extend"
				if fsigned {
					ext = "sign_extend"
				}
				return ts.Mk(fmt.Sprintf("(_ %s %d)", ext, tw-fw), SBV(tw), t)
			}
		case t.sort.IsFP() && tb.Info()&types.IsFloat != 0:
			if tb.Kind() == types.Float32 {
				if t.sort == SF32 {
					return t
				}
				return ts.Mk("(_ to_fp 8 24) RNE", SF32, t)
			}
			if t.sort == SF64 {
				return t
			}
			return ts.Mk("(_ to_fp 11 53) RNE", SF64, t)
		case t.sort.IsBV() && tb.Info()&types.IsString != 0:
			// string(rune): ASCII runes become one symbolic byte
			w := t.sort.Width()
			ascii := ts.Mk("bvult", SBool, t, ts.Const(t.sort, 0x80))
			if in.decide(ascii) {
				return &Rope{[]Chunk{{b: ts.Mk("(_ extract 7 0)", SBV(8), t)}}}
			}
			_ = w
			panic(pathAbort{"unsupported: string(rune) of a symbolic non-ASCII rune"})
		}
		panic(pathAbort{"unsupported: symbolic conversion " + t.sort.String() + " -> " + to.String()})
	}
	if fok && tok {
		switch {
		case fb.Info()&types.IsInteger != 0 && tb.Info()&types.IsInteger != 0:
			return wrap(x.(int64), to)
		case fb.Info()&types.IsInteger != 0 && tb.Info()&types.IsFloat != 0:
			var f float64
			if _, s := bits(from); !s {
				f = float64(uint64(x.(int64)))
			} else {
				f = float64(x.(int64))
			}
			if tb.Kind() == types.Float32 {
				if _, s := bits(from); !s {
					return float64(float32(uint64(x.(int64))))
				}
				return float64(float32(x.(int64)))
			}
			return f
		case fb.Info()&types.IsFloat != 0 && tb.Info()&types.IsInteger != 0:
			if _, s := bits(to); !s {
				f := x.(float64)
				if f >= 9223372036854775808.0 && f < 18446744073709551616.0 {
					return wrap(int64(uint64(f)), to)
				}
			}
			return wrap(f2iConcrete(x.(float64)), to)
		case fb.Info()&types.IsFloat != 0 && tb.Info()&types.IsFloat != 0:
			if tb.Kind() == types.Float32 {
				return float64(float32(x.(float64)))
			}
			return x
		case fb.Info()&types.IsInteger != 0 && tb.Info()&types.IsString != 0:
			return string(rune(x.(int64)))
		case fb.Info()&types.IsString != 0 && tb.Info()&types.IsString != 0:
			return x
		case fb.Info()&types.IsBoolean != 0 && tb.Info()&types.IsBoolean != 0:
			return x
		}
	}
	// string -> []byte / []rune
	if fok && fb.Info()&types.IsString != 0 {
		if sl, ok := to.Underlying().(*types.Slice); ok {
			isRune := sl.Elem().Underlying().(*types.Basic).Kind() == types.Int32
			arr := &Array{}
			if s, ok := x.(string); ok {
				if isRune {
					for _, r := range s {
						arr.elems = append(arr.elems, newCell(int64(r), nil, len(arr.elems)))
					}
				} else {
					for k := 0; k < len(s); k++ {
						arr.elems = append(arr.elems, newCell(int64(s[k]), nil, k))
					}
				}
			} else {
				if isRune {
					it := &strIter{bs: strBytes(x)}
					for {
						t := in.strIterNext(it)
						if !t[0].(bool) {
							break
						}
						arr.elems = append(arr.elems, newCell(t[2], nil, len(arr.elems)))
					}
				} else {
					for k, b := range strBytes(x) {
						arr.elems = append(arr.elems, newCell(b, nil, k))
					}
				}
			}
			return Slice{arr, 0, len(arr.elems), len(arr.elems)}
		}
	}
	// []byte / []rune -> string
	if tok && tb.Info()&types.IsString != 0 {
		if sl, ok := x.(Slice); ok {
			isRune := from.Underlying().(*types.Slice).Elem().Underlying().(*types.Basic).Kind() == types.Int32
			var bs []Value
			for k := 0; k < sl.len; k++ {
				v := sl.arr.elems[sl.off+k].v
				if isRune {
					switch r := v.(type) {
					case int64:
						var buf [4]byte
						n := utf8.EncodeRune(buf[:], rune(r))
						for _, c := range buf[:n] {
							bs = append(bs, int64(c))
						}
					case *Term:
						ascii := in.ts.Mk("bvult", SBool, r, in.ts.Const(r.sort, 0x80))
						if !in.decide(ascii) {
							panic(pathAbort{"unsupported: string([]rune) with a symbolic non-ASCII rune"})
						}
						bs = append(bs, in.ts.Mk("(_ extract 7 0)", SBV(8), r))
					}
				} else {
					bs = append(bs, v)
				}
			}
			return ropeFromBytes(bs)
		}
	}
	if _, ok := to.Underlying().(*types.Pointer); ok {
		return x
	}
	if types.Identical(from.Underlying(), to.Underlying()) {
		return x
	}
	if _, ok := to.Underlying().(*types.Slice); ok {
		if _, ok := x.(Slice); ok {
			return x
		}
	}
	panic(pathAbort{fmt.Sprintf("unsupported: conversion %s -> %s (%T)", from, to, x)})
}

// reinterpret: *(*T)(unsafe.Pointer(&scalar)); handled at load time through a
// tiny adapter cell (only int64<->uint64<->float64 as used by vm/bin.go).
func (p Ptr) reinterpret(want types.Type) Ptr {
	b, ok := want.Underlying().(*types.Basic)
	if !ok {
		panic(pathAbort{"unsupported: unsafe reinterpretation as " + want.String()})
	}
	cur := p.c.v
	switch v := cur.(type) {
	case int64:
		if b.Info()&types.IsInteger != 0 {
			return Ptr{c: p.c}
		}
		if b.Kind() == types.Float64 {
			return Ptr{c: newCell(math.Float64frombits(uint64(v)), nil, 0)}
		}
	case float64:
		if b.Kind() == types.Float64 {
			return Ptr{c: p.c}
		}
		if b.Info()&types.IsInteger != 0 {
			return Ptr{c: newCell(int64(math.Float64bits(v)), nil, 0)}
		}
	}
	panic(pathAbort{fmt.Sprintf("unsupported: unsafe reinterpretation of %T as %s", cur, want)})
}
