package main

// Symbolic regular-expression matching: a backtracking matcher over the
// regexp/syntax program of the pattern the real code compiled, run on a
// string whose bytes may be symbolic. Alternatives are tried in priority
// order, i.e. Go's leftmost-first semantics. Character tests on symbolic
// bytes are path decisions.

import (
	"regexp"
	"regexp/syntax"
	"unicode"
	"unicode/utf8"
)

type runeItem struct {
	r    rune  // concrete rune (when t == nil)
	t    *Term // symbolic ASCII byte (BV8)
	off  int   // byte offset
	size int
}

type reMatcher struct {
	in      *Interp
	prog    *syntax.Prog
	runes   []runeItem
	visited map[int]bool
	steps   int
}

// runesOf splits a rope into runes; symbolic bytes must be ASCII (decided).
func (in *Interp) runesOf(s Value) []runeItem {
	bs := strBytes(s)
	var out []runeItem
	for i := 0; i < len(bs); {
		switch b := bs[i].(type) {
		case *Term:
			if !in.decide(in.ts.Mk("bvult", SBool, b, in.ts.BV(8, 0x80))) {
				panic(pathAbort{"unsupported: symbolic non-ASCII byte in a regular-expression subject"})
			}
			out = append(out, runeItem{t: b, off: i, size: 1})
			i++
		case int64:
			if b < utf8.RuneSelf {
				out = append(out, runeItem{r: rune(b), off: i, size: 1})
				i++
				continue
			}
			var buf []byte
			for j := i; j < len(bs) && j < i+4; j++ {
				c, ok := bs[j].(int64)
				if !ok {
					break
				}
				buf = append(buf, byte(c))
			}
			r, w := utf8.DecodeRune(buf)
			out = append(out, runeItem{r: r, off: i, size: w})
			i += w
		}
	}
	return out
}

func (m *reMatcher) matchRune(inst *syntax.Inst, it runeItem) Value {
	if it.t == nil {
		return inst.MatchRune(it.r)
	}
	ts := m.in.ts
	switch inst.Op {
	case syntax.InstRuneAny:
		return true
	case syntax.InstRuneAnyNotNL:
		return ts.Not(ts.Eq(it.t, ts.BV(8, '\n')))
	}
	var alts []*Term
	addRange := func(lo, hi rune) {
		if lo > 0x7f {
			return
		}
		if hi > 0x7f {
			hi = 0x7f
		}
		if lo == hi {
			alts = append(alts, ts.Eq(it.t, ts.BV(8, uint64(lo))))
			return
		}
		alts = append(alts, ts.And(ts.Mk("bvuge", SBool, it.t, ts.BV(8, uint64(lo))), ts.Mk("bvule", SBool, it.t, ts.BV(8, uint64(hi)))))
	}
	rs := inst.Rune
	if len(rs) == 1 {
		addRange(rs[0], rs[0])
		if syntax.Flags(inst.Arg)&syntax.FoldCase != 0 {
			for r1 := unicode.SimpleFold(rs[0]); r1 != rs[0]; r1 = unicode.SimpleFold(r1) {
				addRange(r1, r1)
			}
		}
	} else {
		for k := 0; k+1 < len(rs); k += 2 {
			addRange(rs[k], rs[k+1])
		}
	}
	if len(alts) == 0 {
		return false
	}
	return boolOrTerm(ts.Or(alts...))
}

func (m *reMatcher) isWord(it runeItem) Value {
	if it.t == nil {
		r := it.r
		return r == '_' || r >= '0' && r <= '9' || r >= 'a' && r <= 'z' || r >= 'A' && r <= 'Z'
	}
	ts := m.in.ts
	rng := func(lo, hi byte) *Term {
		return ts.And(ts.Mk("bvuge", SBool, it.t, ts.BV(8, uint64(lo))), ts.Mk("bvule", SBool, it.t, ts.BV(8, uint64(hi))))
	}
	return ts.Or(ts.Eq(it.t, ts.BV(8, '_')), rng('0', '9'), rng('a', 'z'), rng('A', 'Z'))
}

func (m *reMatcher) truth(v Value) bool {
	switch c := v.(type) {
	case bool:
		return c
	case *Term:
		return m.in.decide(c)
	}
	panic("engine: regex truth")
}

func (m *reMatcher) isNL(pos int) bool {
	it := m.runes[pos]
	if it.t == nil {
		return it.r == '\n'
	}
	return m.in.decide(m.in.ts.Eq(it.t, m.in.ts.BV(8, '\n')))
}

func (m *reMatcher) emptyOK(op syntax.EmptyOp, pos int) bool {
	n := len(m.runes)
	if op&syntax.EmptyBeginText != 0 && pos != 0 {
		return false
	}
	if op&syntax.EmptyEndText != 0 && pos != n {
		return false
	}
	if op&syntax.EmptyBeginLine != 0 && !(pos == 0 || m.isNL(pos-1)) {
		return false
	}
	if op&syntax.EmptyEndLine != 0 && !(pos == n || m.isNL(pos)) {
		return false
	}
	if op&(syntax.EmptyWordBoundary|syntax.EmptyNoWordBoundary) != 0 {
		before := pos > 0 && m.truth(m.isWord(m.runes[pos-1]))
		after := pos < n && m.truth(m.isWord(m.runes[pos]))
		boundary := before != after
		if op&syntax.EmptyWordBoundary != 0 && !boundary {
			return false
		}
		if op&syntax.EmptyNoWordBoundary != 0 && boundary {
			return false
		}
	}
	return true
}

// run returns the end position of the highest-priority match from (pc,pos), or -1.
func (m *reMatcher) run(pc, pos int) int {
	m.steps++
	if m.steps > 200000 {
		panic(pathAbort{"unwound: regular-expression matcher exceeded 200000 steps"})
	}
	key := pc*(len(m.runes)+1) + pos
	if m.visited[key] {
		return -1
	}
	m.visited[key] = true
	inst := &m.prog.Inst[pc]
	switch inst.Op {
	case syntax.InstFail:
		return -1
	case syntax.InstMatch:
		return pos
	case syntax.InstNop, syntax.InstCapture:
		return m.run(int(inst.Out), pos)
	case syntax.InstAlt, syntax.InstAltMatch:
		if r := m.run(int(inst.Out), pos); r >= 0 {
			return r
		}
		return m.run(int(inst.Arg), pos)
	case syntax.InstEmptyWidth:
		if m.emptyOK(syntax.EmptyOp(inst.Arg), pos) {
			return m.run(int(inst.Out), pos)
		}
		return -1
	case syntax.InstRune, syntax.InstRune1, syntax.InstRuneAny, syntax.InstRuneAnyNotNL:
		if pos >= len(m.runes) {
			return -1
		}
		if m.truth(m.matchRune(inst, m.runes[pos])) {
			return m.run(int(inst.Out), pos+1)
		}
		return -1
	}
	panic(pathAbort{"unsupported: regexp instruction " + inst.Op.String()})
}

func (in *Interp) symRegexp(name string, re *regexp.Regexp, args []Value) Value {
	parsed, err := syntax.Parse(re.String(), syntax.Perl)
	if err != nil {
		panic(pathAbort{"unsupported: cannot re-parse pattern " + re.String()})
	}
	prog, err := syntax.Compile(parsed.Simplify())
	if err != nil {
		panic(pathAbort{"unsupported: cannot compile pattern " + re.String()})
	}
	in.note("trusted: symbolic regular-expression matcher (leftmost-first backtracking over regexp/syntax.Prog) for subjects with symbolic ASCII bytes")
	runes := in.runesOf(args[0])
	find := func() (int, int) {
		for start := 0; start <= len(runes); start++ {
			m := &reMatcher{in: in, prog: prog, runes: runes, visited: map[int]bool{}}
			if end := m.run(prog.Start, start); end >= 0 {
				return start, end
			}
			// an anchored pattern cannot match later; unanchored ones try the next start
			if prog.StartCond()&syntax.EmptyBeginText != 0 {
				break
			}
		}
		return -1, -1
	}
	byteOff := func(k int) int64 {
		if k < len(runes) {
			return int64(runes[k].off)
		}
		n, _ := in.strLen(args[0]).(int64)
		return n
	}
	switch name {
	case "(*regexp.Regexp).MatchString":
		s, _ := find()
		return s >= 0
	case "(*regexp.Regexp).FindString":
		s, e := find()
		if s < 0 {
			return ""
		}
		return in.strSlice(args[0], byteOff(s), byteOff(e), true)
	}
	panic(pathAbort{"unsupported: " + name + " on a symbolic string"})
}
