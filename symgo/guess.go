package main

// Feasibility by witness: before asking the solver whether pc ∧ c is
// satisfiable, try a few hundred candidate assignments built from boundary
// values. A satisfying assignment found by evaluation is a proof of
// satisfiability; failing to find one proves nothing and the solver is asked.
// (Assertion queries always go to the solver: "holds for all values" is only
// ever concluded from unsat.)

import (
	"math"
	"math/rand"
)

var specialF64 = []float64{0, math.Copysign(0, -1), 1, -1, 0.5, -0.5, 1.5, -1.5, 2, 3, 4, 5, 7, 10, 100, -2, -3,
	1e-9, 1e-10, 5e-10, 2e-9, -1e-9, 0.1, 0.25, 0.9999999999, 1.0000000001, 1.00000001,
	9007199254740992, 9007199254740993, -9007199254740992, 4294967296, 9223372036854775808, -9223372036854775808,
	18446744073709551616, 1e19, -1e19, 1e30, 1e300, -1e300, math.MaxFloat64, -math.MaxFloat64, math.SmallestNonzeroFloat64,
	math.Inf(1), math.Inf(-1), math.NaN(), 255, 256, 65535, 65536, 1024, 42, 43, 41}

func (in *Interp) randBits(rng *rand.Rand, v *Term, base map[string]uint64, others []uint64) uint64 {
	switch {
	case v.sort == SBool:
		return uint64(rng.Intn(2))
	case v.sort == SF64:
		switch rng.Intn(10) {
		case 0, 1, 2, 3, 4:
			return math.Float64bits(specialF64[rng.Intn(len(specialF64))])
		case 5:
			return math.Float64bits(float64(rng.Intn(11) - 5))
		case 6:
			return math.Float64bits(float64(rng.Intn(2001)-1000) / 8)
		case 7, 8:
			if len(others) > 0 {
				o := math.Float64frombits(others[rng.Intn(len(others))])
				d := []float64{0, 1e-10, -1e-10, 1e-9, -1e-9, 2e-9, 1, -1, 2, -2, 0.5}[rng.Intn(11)]
				return math.Float64bits(o + d)
			}
			return math.Float64bits(rng.NormFloat64() * 10)
		default:
			return rng.Uint64()
		}
	case v.sort == SF32:
		switch rng.Intn(6) {
		case 0, 1, 2:
			f := specialF64[rng.Intn(len(specialF64))]
			return uint64(math.Float32bits(float32(f)))
		case 3:
			return uint64(math.Float32bits(float32(rng.Intn(41)-20) / 4))
		case 4:
			if len(others) > 0 {
				o := math.Float32frombits(uint32(others[rng.Intn(len(others))]))
				d := []float32{0, 1, -1, 0.5, -0.5, 0.25, 2}[rng.Intn(7)]
				return uint64(math.Float32bits(o + d))
			}
			return uint64(math.Float32bits(rng.Float32() * 20))
		default:
			return uint64(rng.Uint32())
		}
	}
	w := v.sort.Width()
	switch rng.Intn(8) {
	case 0, 1, 2:
		sp := []uint64{0, 1, 2, 3, 4, 5, 0xff, 0x100, 0xffff, 0x10000, ^uint64(0), ^uint64(0) - 1, 1 << 63, 1<<63 - 1, 41, 42, 43, 0x7f, 0x80,
			'"', '\\', '\n', '\'', ' ', 'a', '0', ':', '.', '-'}
		return maskW(sp[rng.Intn(len(sp))], w)
	case 3, 4:
		return maskW(uint64(rng.Intn(256)), w)
	case 5:
		if len(others) > 0 {
			return maskW(others[rng.Intn(len(others))]+uint64(rng.Intn(3))-1, w)
		}
	}
	return maskW(rng.Uint64(), w)
}

// guessSat looks for an assignment satisfying pc ∧ c by evaluation.
func (in *Interp) guessSat(c *Term) map[string]uint64 {
	if in.cfg.NoGuess {
		return nil
	}
	if in.rng == nil {
		in.rng = rand.New(rand.NewSource(int64(in.cfg.Seed) + 12345))
	}
	vars := map[string]*Term{}
	seen := map[int]bool{}
	c.Vars(seen, vars)
	for _, t := range in.pc {
		t.Vars(seen, vars)
	}
	if len(vars) == 0 || len(vars) > 64 {
		return nil
	}
	names := make([]string, 0, len(vars))
	for n := range vars {
		names = append(names, n)
	}
	// start from the cached model when there is one
	base := map[string]uint64{}
	for k, v := range in.model {
		base[k] = v
	}
	cvars := map[string]*Term{}
	c.Vars(map[int]bool{}, cvars)
	cnames := make([]string, 0, len(cvars))
	for n := range cvars {
		cnames = append(cnames, n)
	}
	try := func(m map[string]uint64) bool {
		memo := map[int]uint64{}
		if v, ok := c.Eval(m, memo); !ok || v != 1 {
			return false
		}
		for i := len(in.pc) - 1; i >= 0; i-- {
			if v, ok := in.pc[i].Eval(m, memo); !ok || v != 1 {
				return false
			}
		}
		return true
	}
	attempts := in.cfg.GuessTries
	for a := 0; a < attempts; a++ {
		m := map[string]uint64{}
		for k, v := range base {
			m[k] = v
		}
		// mutate a few variables, preferring those of c
		pool := cnames
		if a%3 == 2 || len(pool) == 0 {
			pool = names
		}
		nmut := 1 + in.rng.Intn(3)
		if a > attempts/2 {
			nmut = 1 + in.rng.Intn(len(pool))
		}
		for k := 0; k < nmut; k++ {
			n := pool[in.rng.Intn(len(pool))]
			v := vars[n]
			var others []uint64
			for _, on := range names {
				if on != n && vars[on].sort == v.sort {
					others = append(others, m[on])
				}
			}
			m[n] = in.randBits(in.rng, v, m, others)
		}
		if try(m) {
			in.guessHits++
			return m
		}
	}
	in.guessMiss++
	return nil
}
