package main

import (
	"os"
	"fmt"
	"go/token"
	"go/types"
	"math"
	mbits "math/bits"
	"regexp"
	"sort"
	"strconv"
	"strings"
	"time"
	"unicode"
	"unicode/utf8"

	"golang.org/x/tools/go/ssa"
)

// synthErr is an error value made by the engine (fmt.Errorf, errors from
// native stubs, recovered run-time errors).
type synthErr struct {
	msg     Value // string or *Rope
	runtime bool
	class   string
}

var (
	synthErrT  = types.NewNamed(types.NewTypeName(0, nil, "*fmt.wrapError", nil), types.NewStruct(nil, nil), nil)
	rtErrT     = types.NewNamed(types.NewTypeName(0, nil, "runtime.Error", nil), types.NewStruct(nil, nil), nil)
	hostT      = types.NewNamed(types.NewTypeName(0, nil, "host", nil), types.NewStruct(nil, nil), nil)
	stringType = types.Typ[types.String]
)

func mkErr(msg Value) Iface { return Iface{t: synthErrT, v: &synthErr{msg: msg}} }

func errOrNil(err error) Value {
	if err == nil {
		return Iface{}
	}
	return mkErr(err.Error())
}

func (in *Interp) panicValue(gp *GoPanic) Value {
	if gp.rt != "" {
		return Iface{t: rtErrT, v: &synthErr{msg: "runtime error: " + gp.rt, runtime: true, class: gp.class}}
	}
	return gp.val
}

// ---- builtins

func (in *Interp) builtin(fr *Frame, b *ssa.Builtin, args []Value, c *ssa.CallCommon) Value {
	switch b.Name() {
	case "len":
		switch a := args[0].(type) {
		case string, *Rope:
			return in.strLen(a)
		case Slice:
			return int64(a.len)
		case *Map:
			if a == nil {
				return int64(0)
			}
			return int64(a.live)
		case Ptr:
			return int64(len(a.c.v.(*Array).elems))
		case *Array:
			return int64(len(a.elems))
		}
	case "cap":
		switch a := args[0].(type) {
		case Slice:
			return int64(a.cap)
		case *Array:
			return int64(len(a.elems))
		}
	case "append":
		s := args[0].(Slice)
		var add []Value
		switch t := args[1].(type) {
		case Slice:
			add = make([]Value, t.len)
			for k := 0; k < t.len; k++ {
				add[k] = copyVal(t.arr.elems[t.off+k].v)
			}
		case string, *Rope:
			add = strBytes(t)
		}
		if len(add) == 0 {
			return s
		}
		if s.arr != nil && s.len+len(add) <= s.cap {
			for k, v := range add {
				ce := s.arr.elems[s.off+s.len+k]
				in.setCell(ce, v)
				fixParents(ce)
			}
			return Slice{s.arr, s.off, s.len + len(add), s.cap}
		}
		need := s.len + len(add)
		ncap := s.cap * 2
		if ncap < need {
			ncap = need
		}
		if ncap < 4 {
			ncap = 4
		}
		et := c.Args[0].Type().Underlying().(*types.Slice).Elem()
		arr := newArray(et, ncap)
		for k := 0; k < s.len; k++ {
			arr.elems[k].v = copyVal(s.arr.elems[s.off+k].v)
			fixParents(arr.elems[k])
		}
		for k, v := range add {
			arr.elems[s.len+k].v = v
			fixParents(arr.elems[s.len+k])
		}
		return Slice{arr, 0, need, ncap}
	case "copy":
		d := args[0].(Slice)
		var src []Value
		switch s := args[1].(type) {
		case Slice:
			src = make([]Value, s.len)
			for k := 0; k < s.len; k++ {
				src[k] = copyVal(s.arr.elems[s.off+k].v)
			}
		case string, *Rope:
			src = strBytes(s)
		}
		n := d.len
		if len(src) < n {
			n = len(src)
		}
		for k := 0; k < n; k++ {
			ce := d.arr.elems[d.off+k]
			in.setCell(ce, src[k])
			fixParents(ce)
		}
		return int64(n)
	case "recover":
		// fr is the deferred function's frame; its caller is the frame
		// running its deferred calls.
		if fr.caller != nil && fr.caller.panicking != nil {
			gp := fr.caller.panicking
			fr.caller.panicking = nil
			return in.panicValue(gp)
		}
		return Iface{}
	case "ssa:wrapnilchk":
		if p, ok := args[0].(Ptr); ok && p.c == nil {
			panic(rtPanic("rt:nil", "value method called using nil pointer"))
		}
		return args[0]
	case "delete":
		in.mapDelete(args[0].(*Map), args[1])
		return nil
	case "print", "println":
		return nil
	case "min", "max":
		// only concrete ints/floats
		res := args[0]
		for _, a := range args[1:] {
			lt := in.binop(tokLSS, a, res, c.Args[0].Type(), c.Args[0].Type())
			if b.Name() == "max" {
				lt = in.binop(tokLSS, res, a, c.Args[0].Type(), c.Args[0].Type())
			}
			if l, ok := lt.(bool); ok {
				if l {
					res = a
				}
			} else {
				panic(pathAbort{"unsupported: builtin min/max on symbolic values"})
			}
		}
		return res
	}
	panic(pathAbort{"unsupported: builtin " + b.Name()})
}

// ---- host objects

func hostOf(v Value) interface{} {
	p := v.(Ptr)
	if p.c == nil {
		panic(rtPanic("rt:nil", "invalid memory address or nil pointer dereference"))
	}
	return p.c.v.(Host).v
}

func allConcrete(args []Value) bool {
	for _, a := range args {
		switch a.(type) {
		case *Term, *Rope:
			return false
		}
	}
	return true
}

// ---- time

const unixToInternal int64 = (1969*365 + 1969/4 - 1969/100 + 1969/400) * 86400

func (in *Interp) nativeTime(v Value) (time.Time, bool) {
	s, ok := v.(*Struct)
	if !ok {
		return time.Time{}, false
	}
	wall, ok1 := s.fields[0].v.(int64)
	ext, ok2 := s.fields[1].v.(int64)
	loc, _ := s.fields[2].v.(Ptr)
	if !ok1 || !ok2 {
		return time.Time{}, false
	}
	if uint64(wall)&(1<<63) != 0 {
		panic(pathAbort{"unsupported: time.Time with monotonic reading"})
	}
	t := time.Unix(ext-unixToInternal, wall&(1<<30-1))
	if loc.c == nil {
		t = t.UTC()
	}
	return t, true
}

// ---- the intrinsic table

func (in *Interp) intrinsic(fr *Frame, name string, args []Value, fn *ssa.Function) Value {
	if strings.HasSuffix(name, ".init") {
		return nil
	}
	if strings.HasPrefix(name, svPath+".") {
		return in.svCall(fr, name[len(svPath)+1:], args, fn)
	}
	if in.self != nil && strings.HasPrefix(name, "(*testing.") {
		if r, ok := in.testingIntrinsic(fr, name, args); ok {
			return r
		}
	}
	if strings.Contains(name, "sync") {
		if r, ok := in.syncIntrinsic(fr, name, args); ok {
			return r
		}
	}
	if strings.Contains(name, "reflect.") {
		if r, ok := in.reflectIntrinsic(fr, name, args); ok {
			return r
		}
	}
	if concretizable[name] {
		for i, a := range args {
			if r, ok := a.(*Rope); ok {
				if c, ok := in.concretizeStr(r); ok {
					args[i] = c
				}
			}
		}
	}
	ts := in.ts
	f64 := func(i int) (float64, *Term) {
		switch a := args[i].(type) {
		case float64:
			return a, nil
		case *Term:
			return 0, a
		}
		panic("engine: float arg")
	}
	switch name {
	// ---------------- fmt
	case "fmt.Sprintf":
		return in.sprintf(fr, args[0], args[1].(Slice))
	case "fmt.Errorf":
		return mkErr(in.sprintf(fr, args[0], args[1].(Slice)))
	case "fmt.Sprint":
		return in.sprint(fr, args[0].(Slice), false)
	case "fmt.Sprintln":
		return strConcat(in.sprint(fr, args[0].(Slice), true), "\n")
	case "fmt.Println":
		in.stdout = append(in.stdout, strConcat(in.sprint(fr, args[0].(Slice), true), "\n"))
		return Tuple{int64(0), Iface{}}
	case "fmt.Printf":
		in.stdout = append(in.stdout, in.sprintf(fr, args[0], args[1].(Slice)))
		return Tuple{int64(0), Iface{}}
	case "fmt.Print":
		in.stdout = append(in.stdout, in.sprint(fr, args[0].(Slice), false))
		return Tuple{int64(0), Iface{}}
	case "fmt.Fprintf":
		s := in.sprintf(fr, args[1], args[2].(Slice))
		in.writeTo(fr, args[0], s)
		return Tuple{in.strLen(s), Iface{}}
	case "fmt.Fprintln":
		s := strConcat(in.sprint(fr, args[1].(Slice), true), "\n")
		in.writeTo(fr, args[0], s)
		return Tuple{in.strLen(s), Iface{}}
	case "fmt.Fprint":
		s := in.sprint(fr, args[1].(Slice), false)
		in.writeTo(fr, args[0], s)
		return Tuple{in.strLen(s), Iface{}}
	case "synthErr.Error":
		return args[0].(*synthErr).msg
	case "synthErr.RuntimeError":
		return nil
	case "errors.New":
		return mkErr(args[0])

	// ---------------- strings.Builder / bytes.Buffer (engine-side buffers)
	case "(*strings.Builder).Grow", "(*bytes.Buffer).Grow":
		return nil
	case "(*strings.Builder).WriteString", "(*bytes.Buffer).WriteString":
		in.bufAppend(args[0].(Ptr), args[1])
		return Tuple{in.strLen(args[1]), Iface{}}
	case "(*strings.Builder).WriteByte", "(*bytes.Buffer).WriteByte":
		in.bufAppend(args[0].(Ptr), ropeFromBytes([]Value{args[1]}))
		return Iface{}
	case "(*strings.Builder).WriteRune", "(*bytes.Buffer).WriteRune":
		r, ok := args[1].(int64)
		if !ok {
			in.bufAppend(args[0].(Ptr), in.convert(args[1], types.Typ[types.Rune], stringType))
			return Tuple{int64(1), Iface{}}
		}
		in.bufAppend(args[0].(Ptr), string(rune(r)))
		return Tuple{int64(utf8.RuneLen(rune(r))), Iface{}}
	case "(*strings.Builder).Write", "(*bytes.Buffer).Write":
		s := in.convert(args[1], types.NewSlice(types.Typ[types.Byte]), stringType)
		in.bufAppend(args[0].(Ptr), s)
		return Tuple{in.strLen(s), Iface{}}
	case "(*strings.Builder).String", "(*bytes.Buffer).String":
		return in.bufGet(args[0].(Ptr))
	case "(*strings.Builder).Len", "(*bytes.Buffer).Len":
		return in.strLen(in.bufGet(args[0].(Ptr)))
	case "(*strings.Builder).Reset", "(*bytes.Buffer).Reset":
		in.bufSet(args[0].(Ptr), "")
		return nil

	// ---------------- strings
	case "strings.HasPrefix", "internal/stringslite.HasPrefix":
		return in.hasPrefix(args[0], args[1])
	case "strings.HasSuffix", "internal/stringslite.HasSuffix":
		if allConcrete(args) {
			return strings.HasSuffix(args[0].(string), args[1].(string))
		}
		panic(pathAbort{"unsupported: HasSuffix on a symbolic string"})
	case "strings.Contains":
		if allConcrete(args) {
			return strings.Contains(args[0].(string), args[1].(string))
		}
		return in.ropeContains(args[0], args[1])
	case "strings.Join":
		sl := args[0].(Slice)
		var out Value = ""
		for k := 0; k < sl.len; k++ {
			if k > 0 {
				out = strConcat(out, args[1])
			}
			out = strConcat(out, sl.arr.elems[sl.off+k].v)
		}
		return out
	case "strings.Split", "strings.ToLower", "strings.ToUpper", "strings.TrimSpace", "strings.Index", "strings.Repeat",
		"strings.Replace", "strings.ReplaceAll", "strings.TrimPrefix", "strings.TrimSuffix", "strings.IndexByte",
		"strings.Count", "strings.EqualFold", "strings.Fields", "strings.LastIndex", "strings.Trim", "strings.TrimLeft", "strings.TrimRight",
		"strings.IndexRune", "strings.ContainsRune", "strings.ContainsAny", "strings.IndexAny":
		if !allConcrete(args) {
			if hay, ok := args[0].(string); ok && (name == "strings.ContainsRune" || name == "strings.IndexByte" || name == "strings.IndexRune") {
				if r, ok := args[1].(*Term); ok {
					return in.symNeedle(name, hay, r)
				}
			}
			panic(pathAbort{"unsupported: " + name + " on a symbolic string"})
		}
		return in.nativeStrings(name, args)

	// ---------------- strconv
	case "strconv.FormatInt":
		if t, ok := args[0].(*Term); ok {
			if b, ok := args[1].(int64); !ok || b != 10 {
				panic(pathAbort{"unsupported: FormatInt of a symbolic value in base != 10"})
			}
			return &Rope{[]Chunk{{atom: in.newAtom("fmtint", t, nil, "")}}}
		}
		return strconv.FormatInt(args[0].(int64), int(args[1].(int64)))
	case "strconv.FormatFloat":
		if t, ok := args[0].(*Term); ok {
			if f, _ := args[1].(int64); f == 'f' && args[2].(int64) == -1 && args[3].(int64) == 64 && t.sort == SF64 {
				return &Rope{[]Chunk{{atom: in.newAtom("fmtfloat", t, nil, "")}}}
			}
			return &Rope{[]Chunk{{atom: in.newAtom("opaque", nil, nil, fmt.Sprintf("FormatFloat(%s,%c,%d)", t.Pretty(3), rune(args[1].(int64)), args[2].(int64)))}}}
		}
		return strconv.FormatFloat(args[0].(float64), byte(args[1].(int64)), int(args[2].(int64)), int(args[3].(int64)))
	case "strconv.FormatBool":
		if t, ok := args[0].(*Term); ok {
			return &Rope{[]Chunk{{atom: in.newAtom("fmtbool", t, nil, "")}}}
		}
		return strconv.FormatBool(args[0].(bool))
	case "strconv.Quote":
		if s, ok := args[0].(string); ok {
			return strconv.Quote(s)
		}
		return &Rope{[]Chunk{{atom: in.newAtom("quote", nil, args[0], "")}}}
	case "strconv.Unquote":
		if s, ok := args[0].(string); ok {
			r, err := strconv.Unquote(s)
			return Tuple{r, errOrNil(err)}
		}
		// "…" or `…` around symbolic bytes: a byte that is printable ASCII and
		// neither a quote nor a backslash stands for itself (decided per byte;
		// the other bytes are few enough to be case-split)
		if r, ok := args[0].(*Rope); ok {
			if out, ok := in.unquoteRope(r); ok {
				return out
			}
		}
		panic(pathAbort{"unsupported: Unquote of a symbolic string"})
	case "strconv.ParseFloat":
		if s, ok := args[0].(string); ok {
			f, err := strconv.ParseFloat(s, int(args[1].(int64)))
			return Tuple{f, errOrNil(err)}
		}
		panic(pathAbort{"unsupported: ParseFloat of a symbolic string"})
	case "strconv.ParseInt":
		if s, ok := args[0].(string); ok {
			f, err := strconv.ParseInt(s, int(args[1].(int64)), int(args[2].(int64)))
			return Tuple{f, errOrNil(err)}
		}
		panic(pathAbort{"unsupported: ParseInt of a symbolic string"})
	case "strconv.ParseUint":
		if s, ok := args[0].(string); ok {
			f, err := strconv.ParseUint(s, int(args[1].(int64)), int(args[2].(int64)))
			return Tuple{int64(f), errOrNil(err)}
		}
		panic(pathAbort{"unsupported: ParseUint of a symbolic string"})
	case "strconv.Atoi":
		if s, ok := args[0].(string); ok {
			f, err := strconv.Atoi(s)
			return Tuple{int64(f), errOrNil(err)}
		}
		panic(pathAbort{"unsupported: Atoi of a symbolic string"})
	case "strconv.Itoa":
		if t, ok := args[0].(*Term); ok {
			return &Rope{[]Chunk{{atom: in.newAtom("fmtint", t, nil, "")}}}
		}
		return strconv.Itoa(int(args[0].(int64)))

	// ---------------- math
	case "math.Abs":
		if f, t := f64(0); t != nil {
			return ts.Mk("fp.abs", t.sort, t)
		} else {
			return math.Abs(f)
		}
	case "math.Trunc", "math.Floor", "math.Ceil", "math.Round", "math.RoundToEven":
		mode := map[string]string{"math.Trunc": "RTZ", "math.Floor": "RTN", "math.Ceil": "RTP", "math.Round": "RNA", "math.RoundToEven": "RNE"}[name]
		if f, t := f64(0); t != nil {
			return ts.Mk("fp.roundToIntegral "+mode, t.sort, t)
		} else {
			return roundIntegral(mode, f)
		}
	case "math.Max", "math.Min":
		if allConcrete(args) {
			if name == "math.Max" {
				return math.Max(args[0].(float64), args[1].(float64))
			}
			return math.Min(args[0].(float64), args[1].(float64))
		}
		x, y := in.lift(args[0], types.Typ[types.Float64]), in.lift(args[1], types.Typ[types.Float64])
		nan := ts.Or(ts.Mk("fp.isNaN", SBool, x), ts.Mk("fp.isNaN", SBool, y))
		bothZero := ts.And(ts.Mk("fp.isZero", SBool, x), ts.Mk("fp.isZero", SBool, y))
		qnan := ts.F64(math.NaN())
		if name == "math.Max" {
			// Max(x,+Inf)=+Inf; NaN if either is NaN (after the Inf rule); Max(+0,-0)=+0
			inf := ts.F64(math.Inf(1))
			anyInf := ts.Or(ts.Eq(x, inf), ts.Eq(y, inf))
			zero := ts.Ite(ts.Mk("fp.isNegative", SBool, x), y, x)
			return ts.Ite(anyInf, inf, ts.Ite(nan, qnan, ts.Ite(bothZero, zero, ts.Ite(ts.Mk("fp.gt", SBool, x, y), x, y))))
		}
		inf := ts.F64(math.Inf(-1))
		anyInf := ts.Or(ts.Eq(x, inf), ts.Eq(y, inf))
		zero := ts.Ite(ts.Mk("fp.isNegative", SBool, x), x, y)
		return ts.Ite(anyInf, inf, ts.Ite(nan, qnan, ts.Ite(bothZero, zero, ts.Ite(ts.Mk("fp.lt", SBool, x, y), x, y))))
	case "math.Float64bits":
		if f, t := f64(0); t != nil {
			// fresh bit-vector constrained through to_fp (NaN payload unconstrained)
			b := ts.Fresh("f64bits", SBV(64))
			in.addPC(ts.Eq(ts.Mk("(_ to_fp 11 53)", SF64, b), t))
			return b
		} else {
			return int64(math.Float64bits(f))
		}
	case "math.Float64frombits":
		if t, ok := args[0].(*Term); ok {
			return ts.Mk("(_ to_fp 11 53)", SF64, t)
		}
		return math.Float64frombits(uint64(args[0].(int64)))
	case "math.Pow", "math.Sqrt", "math.Log", "math.Exp", "math.Mod", "math.Log2", "math.Log10", "math.Sin", "math.Cos":
		if allConcrete(args) {
			switch name {
			case "math.Pow":
				return math.Pow(args[0].(float64), args[1].(float64))
			case "math.Sqrt":
				return math.Sqrt(args[0].(float64))
			case "math.Log":
				return math.Log(args[0].(float64))
			case "math.Exp":
				return math.Exp(args[0].(float64))
			case "math.Mod":
				return math.Mod(args[0].(float64), args[1].(float64))
			case "math.Log2":
				return math.Log2(args[0].(float64))
			case "math.Log10":
				return math.Log10(args[0].(float64))
			case "math.Sin":
				return math.Sin(args[0].(float64))
			case "math.Cos":
				return math.Cos(args[0].(float64))
			}
		}
		return in.uninterp(name, SF64, args, types.Typ[types.Float64])

	// ---------------- unicode / utf8
	case "unicode.IsSpace":
		if r, ok := args[0].(int64); ok {
			return unicode.IsSpace(rune(r))
		}
		t := args[0].(*Term)
		var alts []*Term
		for _, c := range []uint64{'\t', '\n', '\v', '\f', '\r', ' ', 0x85, 0xA0, 0x1680, 0x2028, 0x2029, 0x202f, 0x205f, 0x3000} {
			alts = append(alts, ts.Eq(t, ts.Const(t.sort, c)))
		}
		alts = append(alts, ts.And(ts.Mk("bvuge", SBool, t, ts.Const(t.sort, 0x2000)), ts.Mk("bvule", SBool, t, ts.Const(t.sort, 0x200a))))
		return ts.Or(alts...)
	case "unicode.IsLetter", "unicode.IsDigit", "unicode.IsUpper", "unicode.IsLower", "unicode.IsPunct":
		if r, ok := args[0].(int64); ok {
			switch name {
			case "unicode.IsLetter":
				return unicode.IsLetter(rune(r))
			case "unicode.IsDigit":
				return unicode.IsDigit(rune(r))
			case "unicode.IsUpper":
				return unicode.IsUpper(rune(r))
			case "unicode.IsLower":
				return unicode.IsLower(rune(r))
			case "unicode.IsPunct":
				return unicode.IsPunct(rune(r))
			}
		}
		// symbolic rune: ASCII only (decided), where the classes are intervals
		t := args[0].(*Term)
		if !in.decide(ts.Mk("bvult", SBool, t, ts.Const(t.sort, 0x80))) {
			panic(pathAbort{"unsupported: " + name + " on a symbolic non-ASCII rune"})
		}
		rng := func(lo, hi uint64) *Term {
			return ts.And(ts.Mk("bvuge", SBool, t, ts.Const(t.sort, lo)), ts.Mk("bvule", SBool, t, ts.Const(t.sort, hi)))
		}
		switch name {
		case "unicode.IsLetter":
			return boolOrTerm(ts.Or(rng('a', 'z'), rng('A', 'Z')))
		case "unicode.IsDigit":
			return boolOrTerm(rng('0', '9'))
		case "unicode.IsUpper":
			return boolOrTerm(rng('A', 'Z'))
		case "unicode.IsLower":
			return boolOrTerm(rng('a', 'z'))
		}
		panic(pathAbort{"unsupported: " + name + " on a symbolic rune"})

	// ---------------- regexp (native on concrete subjects)
	case "regexp.MustCompile":
		pat, ok := args[0].(string)
		if !ok {
			panic(pathAbort{"unsupported: regexp.MustCompile of a symbolic pattern"})
		}
		re, err := regexp.Compile(pat)
		if err != nil {
			panic(&GoPanic{val: Iface{t: stringType, v: "regexp: Compile(" + strconv.Quote(pat) + "): " + err.Error()}})
		}
		return Ptr{c: newCell(Host{re}, nil, 0)}
	case "regexp.Compile":
		pat, ok := args[0].(string)
		if !ok {
			panic(pathAbort{"unsupported: regexp.Compile of a symbolic pattern"})
		}
		re, err := regexp.Compile(pat)
		if err != nil {
			return Tuple{Ptr{}, errOrNil(err)}
		}
		return Tuple{Ptr{c: newCell(Host{re}, nil, 0)}, Iface{}}
	case "regexp.QuoteMeta":
		return regexp.QuoteMeta(args[0].(string))
	case "regexp.MatchString":
		if !allConcrete(args) {
			panic(pathAbort{"unsupported: regexp.MatchString on a symbolic string"})
		}
		ok, err := regexp.MatchString(args[0].(string), args[1].(string))
		return Tuple{ok, errOrNil(err)}
	case "(*regexp.Regexp).FindString", "(*regexp.Regexp).MatchString", "(*regexp.Regexp).Split", "(*regexp.Regexp).String",
		"(*regexp.Regexp).FindStringIndex", "(*regexp.Regexp).FindStringSubmatch", "(*regexp.Regexp).ReplaceAllString":
		re := hostOf(args[0]).(*regexp.Regexp)
		if !allConcrete(args[1:]) {
			return in.symRegexp(name, re, args[1:])
		}
		switch name {
		case "(*regexp.Regexp).FindString":
			return re.FindString(args[1].(string))
		case "(*regexp.Regexp).MatchString":
			return re.MatchString(args[1].(string))
		case "(*regexp.Regexp).String":
			return re.String()
		case "(*regexp.Regexp).Split":
			return strSliceVal(re.Split(args[1].(string), int(args[2].(int64))))
		case "(*regexp.Regexp).ReplaceAllString":
			return re.ReplaceAllString(args[1].(string), args[2].(string))
		case "(*regexp.Regexp).FindStringIndex":
			return intSliceVal(re.FindStringIndex(args[1].(string)))
		case "(*regexp.Regexp).FindStringSubmatch":
			return strSliceVal(re.FindStringSubmatch(args[1].(string)))
		}

	// ---------------- sort
	case "sort.SliceStable", "sort.Slice":
		// the real algorithm, interpreted from the standard library's SSA
		// (stable_func / pdqsort_func over a lessSwap pair): with a comparator
		// that is not a strict weak order the result depends on the algorithm,
		// so a simpler stand-in would diverge from the native run
		s := args[0].(Iface).v.(Slice)
		var sortPkg *ssa.Package
		for _, p := range in.prog.AllPackages() {
			if p.Pkg.Path() == "sort" {
				sortPkg = p
			}
		}
		if sortPkg == nil || sortPkg.Type("lessSwap") == nil {
			panic(pathAbort{"unsupported: package sort not loaded"})
		}
		ls := newStruct(sortPkg.Type("lessSwap").Type())
		ls.fields[0].v = args[1]
		ls.fields[1].v = &Closure{intr: "symgo.swap", recv: s}
		if name == "sort.SliceStable" {
			in.callFn(fr, sortPkg.Func("stable_func"), []Value{ls, int64(s.len)}, nil)
		} else {
			in.callFn(fr, sortPkg.Func("pdqsort_func"), []Value{ls, int64(0), int64(s.len), int64(mbits.Len(uint(s.len)))}, nil)
		}
		return nil
	case "symgo.swap":
		s := args[0].(Slice)
		i, j := int(args[1].(int64)), int(args[2].(int64))
		if i < 0 || j < 0 || i >= s.len || j >= s.len {
			panic(rtPanic("rt:index", "index out of range (sort swap)"))
		}
		a, b := s.arr.elems[s.off+i], s.arr.elems[s.off+j]
		av, bv := a.v, b.v
		in.setCell(a, bv)
		in.setCell(b, av)
		fixParents(a)
		fixParents(b)
		return nil
	case "math/bits.Len", "math/bits.Len64":
		if x, ok := args[0].(int64); ok {
			return int64(mbits.Len64(uint64(x)))
		}
	case "math/bits.Len32":
		if x, ok := args[0].(int64); ok {
			return int64(mbits.Len32(uint32(x)))
		}
	case "math/bits.LeadingZeros64", "math/bits.LeadingZeros":
		if x, ok := args[0].(int64); ok {
			return int64(mbits.LeadingZeros64(uint64(x)))
		}
	case "math/bits.TrailingZeros64", "math/bits.TrailingZeros":
		if x, ok := args[0].(int64); ok {
			return int64(mbits.TrailingZeros64(uint64(x)))
		}
	case "sort.Strings":
		s := args[0].(Slice)
		if s.len > 1 {
			strs := make([]string, s.len)
			for k := range strs {
				x, ok := s.arr.elems[s.off+k].v.(string)
				if !ok {
					panic(pathAbort{"unsupported: sort.Strings on symbolic strings"})
				}
				strs[k] = x
			}
			sort.Strings(strs)
			for k := range strs {
				in.setCell(s.arr.elems[s.off+k], strs[k])
			}
		}
		return nil

	// ---------------- time
	case "(time.Time).String", "(time.Time).Format", "(time.Time).UnixNano", "(time.Time).Year", "(time.Time).IsZero":
		t, ok := in.nativeTime(args[0])
		if !ok {
			if name == "(time.Time).String" {
				st := args[0].(*Struct)
				ext := st.fields[1].v.(*Term)
				a := in.newAtom("opaque", nil, nil, "time.String("+ext.Pretty(3)+")")
				if w, ok := st.fields[0].v.(int64); ok {
					if loc, ok := st.fields[2].v.(Ptr); ok {
						a.key = fmt.Sprintf("time.String|%d|t%d|%p", w, ext.id, loc.c)
					}
				}
				return &Rope{[]Chunk{{atom: a}}}
			}
			panic(pathAbort{"unsupported: " + name + " of a symbolic instant"})
		}
		switch name {
		case "(time.Time).String":
			return t.String()
		case "(time.Time).Format":
			return t.Format(args[1].(string))
		case "(time.Time).UnixNano":
			return t.UnixNano()
		case "(time.Time).Year":
			return int64(t.Year())
		case "(time.Time).IsZero":
			return t.IsZero()
		}
	case "time.Now":
		in.note("stub: time.Now returns an arbitrary instant")
		sec := ts.Var(in.freshInput("now.sec", SBV(64))+"@BV64", SBV(64))
		st := newStruct(in.timeType())
		st.fields[0].v = int64(0)
		st.fields[1].v = ts.Mk("bvadd", SBV(64), sec, ts.BV(64, uint64(unixToInternal)))
		st.fields[2].v = Ptr{}
		return st
	case repoPrefix + "/timelib.Strtotime":
		if in.self != nil {
			panic(pathAbort{"unsupported: timelib.Strtotime is C code behind cgo"})
		}
		in.note("stub: timelib.Strtotime (C library behind cgo) returns an arbitrary value")
		return in.uninterp(name, SBV(64), args, types.Typ[types.Int64])
	case "time.runtimeNano":
		return int64(0)
	case "runtime/debug.Stack":
		return Slice{}
	case "os.Getenv":
		return ""
	}
	if in.lenient > 0 && fn != nil {
		return zeroResult(fn)
	}
	panic(pathAbort{"unsupported: call to " + name})
}

var tokLSS = token.LSS

func (in *Interp) timeType() types.Type {
	for _, p := range in.prog.AllPackages() {
		if p.Pkg.Path() == "time" {
			return p.Type("Time").Type()
		}
	}
	panic("engine: no time package")
}

// uninterp returns f(args) for an uninterpreted f: the same symbolic result
// for syntactically equal arguments on a path, otherwise arbitrary.
func (in *Interp) uninterp(name string, s Sort, args []Value, rt types.Type) Value {
	key := name
	for _, a := range args {
		switch x := a.(type) {
		case *Term:
			key += fmt.Sprintf("|t%d", x.id)
		case *Rope:
			key += "|" + ropeDesc(x)
		default:
			key += fmt.Sprintf("|%v", x)
		}
	}
	in.note("stub: " + name + " is an uninterpreted function (arbitrary but functionally consistent result)")
	if t, ok := in.stuFns[key]; ok {
		return t
	}
	t := in.ts.Fresh("uf."+name, s)
	in.stuFns[key] = t
	in.ufApps = append(in.ufApps, ufApp{fn: name, args: append([]Value(nil), args...), res: t})
	return t
}

func strSliceVal(ss []string) Value {
	if ss == nil {
		return Slice{}
	}
	arr := &Array{}
	for k, s := range ss {
		arr.elems = append(arr.elems, newCell(s, nil, k))
	}
	return Slice{arr, 0, len(ss), len(ss)}
}
func intSliceVal(ss []int) Value {
	if ss == nil {
		return Slice{}
	}
	arr := &Array{}
	for k, s := range ss {
		arr.elems = append(arr.elems, newCell(int64(s), nil, k))
	}
	return Slice{arr, 0, len(ss), len(ss)}
}

func (in *Interp) nativeStrings(name string, args []Value) Value {
	s := func(i int) string { return args[i].(string) }
	switch name {
	case "strings.Split":
		return strSliceVal(strings.Split(s(0), s(1)))
	case "strings.Fields":
		return strSliceVal(strings.Fields(s(0)))
	case "strings.ToLower":
		return strings.ToLower(s(0))
	case "strings.ToUpper":
		return strings.ToUpper(s(0))
	case "strings.TrimSpace":
		return strings.TrimSpace(s(0))
	case "strings.Index":
		return int64(strings.Index(s(0), s(1)))
	case "strings.LastIndex":
		return int64(strings.LastIndex(s(0), s(1)))
	case "strings.IndexByte":
		return int64(strings.IndexByte(s(0), byte(args[1].(int64))))
	case "strings.IndexRune":
		return int64(strings.IndexRune(s(0), rune(args[1].(int64))))
	case "strings.ContainsRune":
		return strings.ContainsRune(s(0), rune(args[1].(int64)))
	case "strings.ContainsAny":
		return strings.ContainsAny(s(0), s(1))
	case "strings.IndexAny":
		return int64(strings.IndexAny(s(0), s(1)))
	case "strings.Repeat":
		return strings.Repeat(s(0), int(args[1].(int64)))
	case "strings.Replace":
		return strings.Replace(s(0), s(1), s(2), int(args[3].(int64)))
	case "strings.ReplaceAll":
		return strings.ReplaceAll(s(0), s(1), s(2))
	case "strings.TrimPrefix":
		return strings.TrimPrefix(s(0), s(1))
	case "strings.TrimSuffix":
		return strings.TrimSuffix(s(0), s(1))
	case "strings.Trim":
		return strings.Trim(s(0), s(1))
	case "strings.TrimLeft":
		return strings.TrimLeft(s(0), s(1))
	case "strings.TrimRight":
		return strings.TrimRight(s(0), s(1))
	case "strings.Count":
		return int64(strings.Count(s(0), s(1)))
	case "strings.EqualFold":
		return strings.EqualFold(s(0), s(1))
	}
	panic("engine: nativeStrings " + name)
}

func (in *Interp) hasPrefix(s, prefix Value) Value {
	if allConcrete([]Value{s, prefix}) {
		return strings.HasPrefix(s.(string), prefix.(string))
	}
	p, ok := prefix.(string)
	if !ok {
		panic(pathAbort{"unsupported: HasPrefix with a symbolic prefix"})
	}
	var conj []*Term
	cs := chunksOf(s)
	for len(p) > 0 {
		if len(cs) == 0 {
			return false
		}
		c := cs[0]
		switch {
		case c.isLit():
			n := len(c.lit)
			if len(p) < n {
				n = len(p)
			}
			if c.lit[:n] != p[:n] {
				return false
			}
			p = p[n:]
			cs = cs[1:]
		case c.b != nil:
			// byte by byte, as the real comparison proceeds: each test is a
			// decision on one byte (keeps the bytes independent for the
			// exact byte-domain feasibility check)
			if !in.decide(in.ts.Eq(c.b, in.ts.BV(8, uint64(p[0])))) {
				return false
			}
			p = p[1:]
			cs = cs[1:]
		default:
			if cl, ok := atomClass(c.atom); ok && !inClass(p[0], cl) {
				return false
			}
			if c.atom.kind == "quote" && p[0] != '"' {
				return false
			}
			panic(pathAbort{"undecided: HasPrefix into a rendered symbolic scalar"})
		}
	}
	return boolOrTerm(in.ts.And(append(conj, in.ts.Bool(true))...))
}

// functions whose symbolic string arguments are case-split into concrete
// strings when every symbolic byte has a small exact domain (a digit after
// the lexer accepted it as part of a number, say)
var concretizable = map[string]bool{
	"strconv.ParseFloat": true, "strconv.ParseInt": true, "strconv.ParseUint": true, "strconv.Atoi": true, "strconv.Unquote": true,
	"strings.HasSuffix": true, "strings.ToLower": true, "strings.ToUpper": true, "strings.TrimSpace": true, "strings.Index": true,
	"strings.Replace": true, "strings.ReplaceAll": true, "strings.TrimPrefix": true, "strings.TrimSuffix": true, "strings.EqualFold": true,
	"strings.Trim": true, "strings.TrimLeft": true, "strings.TrimRight": true, "strings.Split": true, "strings.Fields": true,
	"regexp.MatchString": true, "regexp.MustCompile": true, "regexp.Compile": true,
}

const maxByteSplit = 48

// concretizeStr turns a rope of literal and symbolic bytes into a concrete
// string by branching on each symbolic byte whose exact domain (interp.go,
// byteDom) has at most maxByteSplit values. The split is exhaustive over the
// domain, so nothing is lost; atoms and wide domains are left alone.
func (in *Interp) concretizeStr(r *Rope) (string, bool) {
	// first pass: is every symbolic byte splittable?
	type sym struct {
		t    *Term
		vals []int
	}
	var syms []sym
	for _, c := range r.chunks {
		switch {
		case c.isLit():
		case c.b != nil:
			if c.b.op != "var" || in.entangled[c.b.name] {
				return "", false
			}
			dom := in.byteDom[c.b.name]
			if dom == nil {
				return "", false
			}
			var vals []int
			for x := 0; x < 256; x++ {
				if dom[x/64]&(1<<uint(x%64)) != 0 {
					vals = append(vals, x)
				}
			}
			if len(vals) == 0 || len(vals) > maxByteSplit {
				if os.Getenv("SYMGO_SOLVERDBG") != "" {
					fmt.Fprintf(os.Stderr, "[concretize] %s has %d admissible values\n", c.b.name, len(vals))
				}
				return "", false
			}
			syms = append(syms, sym{c.b, vals})
		default:
			return "", false
		}
	}
	chosen := map[string]byte{}
	for _, s := range syms {
		if _, done := chosen[s.t.name]; done {
			continue
		}
		vals := s.vals
		k := 0
		if len(vals) > 1 {
			t := s.t
			k = in.branch(len(vals), "", func(k int) *Term { return in.ts.Eq(t, in.ts.BV(8, uint64(vals[k]))) })
		}
		chosen[s.t.name] = byte(vals[k])
	}
	var sb strings.Builder
	for _, c := range r.chunks {
		if c.isLit() {
			sb.WriteString(c.lit)
		} else {
			sb.WriteByte(chosen[c.b.name])
		}
	}
	return sb.String(), true
}

// determinedByte: a concrete byte, or a symbolic one whose exact domain has
// shrunk to one value (the closing quote the lexer has already matched).
func (in *Interp) determinedByte(b Value) (int64, bool) {
	switch x := b.(type) {
	case int64:
		return x, true
	case *Term:
		if x.op == "var" && !in.entangled[x.name] {
			if dom := in.byteDom[x.name]; dom != nil {
				n, v := 0, 0
				for k := 0; k < 256; k++ {
					if dom[k/64]&(1<<uint(k%64)) != 0 {
						n++
						v = k
					}
				}
				if n == 1 {
					return int64(v), true
				}
			}
		}
	}
	return 0, false
}

// unquoteRope: strconv.Unquote of a double- or back-quoted literal whose
// content has symbolic bytes.
func (in *Interp) unquoteRope(r *Rope) (Value, bool) {
	bs := strBytes(r)
	if len(bs) < 2 {
		return nil, false
	}
	q, ok := in.determinedByte(bs[0])
	last, ok2 := in.determinedByte(bs[len(bs)-1])
	if !ok || !ok2 || q != last || (q != '"' && q != '`') {
		return nil, false
	}
	ts := in.ts
	inner := bs[1 : len(bs)-1]
	plain := true
	for _, b := range inner {
		switch x := b.(type) {
		case int64:
			if x == '\\' || x == q || x < 0x20 && q == '"' || x >= 0x7f {
				plain = false
			}
		case *Term:
			safe := ts.And(ts.Mk("bvuge", SBool, x, ts.BV(8, 0x20)), ts.Mk("bvule", SBool, x, ts.BV(8, 0x7e)),
				ts.Not(ts.Eq(x, ts.BV(8, '\\'))), ts.Not(ts.Eq(x, ts.BV(8, uint64(q)))))
			if !in.decide(safe) {
				plain = false
			}
		default:
			return nil, false
		}
	}
	if plain {
		return Tuple{ropeFromBytes(append([]Value(nil), inner...)), Iface{}}, true
	}
	// escapes, control or non-ASCII bytes: only with every symbolic byte narrowed to few values
	if c, ok := in.concretizeStr(r); ok {
		u, err := strconv.Unquote(c)
		return Tuple{u, errOrNil(err)}, true
	}
	return nil, false
}

// symNeedle: a concrete haystack searched for a symbolic byte or rune.
// ContainsRune is a disjunction (no fork); the Index forms case-split on the
// first position that matches.
func (in *Interp) symNeedle(name, hay string, r *Term) Value {
	ts := in.ts
	w := r.sort.Width()
	if name == "strings.ContainsRune" {
		var alts []*Term
		seen := map[rune]bool{}
		for _, c := range hay {
			if !seen[c] {
				seen[c] = true
				alts = append(alts, ts.Eq(r, ts.BV(w, uint64(uint32(c)))))
			}
		}
		if len(alts) == 0 {
			return false
		}
		return boolOrTerm(ts.Or(alts...))
	}
	if name == "strings.IndexByte" {
		for k := 0; k < len(hay); k++ {
			if in.decide(ts.Eq(r, ts.BV(w, uint64(hay[k])))) {
				return int64(k)
			}
		}
		return int64(-1)
	}
	for k, c := range hay {
		if in.decide(ts.Eq(r, ts.BV(w, uint64(uint32(c))))) {
			return int64(k)
		}
	}
	return int64(-1)
}

// ropeContains: strings.Contains(s, sub) with symbolic s and concrete sub of
// length 1 (the only form yae uses: "\n").
func (in *Interp) ropeContains(s, sub Value) Value {
	ss, ok := sub.(string)
	if !ok || len(ss) != 1 {
		panic(pathAbort{"unsupported: strings.Contains with a symbolic or multi-byte needle"})
	}
	var alts []*Term
	for _, b := range strBytes(s) {
		switch x := b.(type) {
		case int64:
			if byte(x) == ss[0] {
				return true
			}
		case *Term:
			alts = append(alts, in.ts.Eq(x, in.ts.BV(8, uint64(ss[0]))))
		}
	}
	if len(alts) == 0 {
		return false
	}
	return in.ts.Or(alts...)
}

// ---- engine-side string buffers

func (in *Interp) bufCell(p Ptr) *Cell {
	if p.c == nil {
		panic(rtPanic("rt:nil", "invalid memory address or nil pointer dereference"))
	}
	// store the content in the first field's cell slot: replace struct by holder
	s, ok := p.c.v.(*Struct)
	if !ok {
		panic("engine: buffer is not a struct")
	}
	return s.fields[0]
}

type bufContent struct{ s Value }

func (in *Interp) bufGet(p Ptr) Value {
	c := in.bufCell(p)
	if b, ok := c.v.(bufContent); ok {
		return b.s
	}
	return ""
}
func (in *Interp) bufSet(p Ptr, s Value) { in.setCell(in.bufCell(p), bufContent{s}) }
func (in *Interp) bufAppend(p Ptr, s Value) {
	in.bufSet(p, strConcat(in.bufGet(p), s))
}

func (in *Interp) writeTo(fr *Frame, w Value, s Value) {
	iw := w.(Iface)
	if iw.t == nil {
		panic(rtPanic("rt:nil", "invalid memory address or nil pointer dereference"))
	}
	ts := iw.t.String()
	switch ts {
	case "*strings.Builder", "*bytes.Buffer":
		in.bufAppend(iw.v.(Ptr), s)
		return
	case "*os.File":
		in.stdout = append(in.stdout, s)
		return
	}
	// a yae/harness io.Writer: call its Write method with bytes
	for _, pkg := range in.prog.AllPackages() {
		_ = pkg
		break
	}
	ms := in.prog.MethodSets.MethodSet(iw.t)
	for i := 0; i < ms.Len(); i++ {
		if ms.At(i).Obj().Name() == "Write" {
			fn := in.prog.MethodValue(ms.At(i))
			bs := in.convert(s, stringType, types.NewSlice(types.Typ[types.Byte]))
			in.callFn(fr, fn, []Value{iw.v, bs}, nil)
			return
		}
	}
	panic(pathAbort{"unsupported: write to " + ts})
}

// ---- formatting

func (in *Interp) stringerOf(fr *Frame, t types.Type, v Value) (Value, bool) {
	if se, ok := v.(*synthErr); ok {
		return se.msg, true
	}
	if t == nil {
		return nil, false
	}
	for _, mname := range []string{"Error", "String"} {
		ms := in.prog.MethodSets.MethodSet(t)
		for i := 0; i < ms.Len(); i++ {
			sel := ms.At(i)
			if sel.Obj().Name() != mname {
				continue
			}
			sig := sel.Obj().Type().(*types.Signature)
			if sig.Params().Len() != 0 || sig.Results().Len() != 1 || !types.Identical(sig.Results().At(0).Type(), stringType) {
				continue
			}
			fn := in.prog.MethodValue(sel)
			if fn == nil {
				continue
			}
			if p, ok := v.(Ptr); ok && p.c == nil {
				return "<nil>", true
			}
			r := in.callFn(fr, fn, []Value{v}, nil)
			return r, true
		}
	}
	return nil, false
}

func basicKind(t types.Type) types.BasicKind {
	if t == nil {
		return types.Invalid
	}
	if b, ok := t.Underlying().(*types.Basic); ok {
		return b.Kind()
	}
	return types.Invalid
}

func nativeOf(v Value, t types.Type) interface{} {
	k := basicKind(t)
	switch x := v.(type) {
	case int64:
		switch k {
		case types.Int8:
			return int8(x)
		case types.Int16:
			return int16(x)
		case types.Int32:
			return int32(x)
		case types.Int64:
			return x
		case types.Uint8:
			return uint8(x)
		case types.Uint16:
			return uint16(x)
		case types.Uint32:
			return uint32(x)
		case types.Uint64:
			return uint64(x)
		case types.Uint:
			return uint(x)
		case types.Uintptr:
			return uintptr(x)
		}
		return int(x)
	case float64:
		if k == types.Float32 {
			return float32(x)
		}
		return x
	}
	return v
}

func (in *Interp) formatArg(fr *Frame, directive string, verb byte, a Value) Value {
	t := types.Type(nil)
	v := a
	if ia, ok := a.(Iface); ok {
		t, v = ia.t, ia.v
		if t == nil {
			if verb == 'v' {
				return "<nil>"
			}
			return "%!" + string(verb) + "(<nil>)"
		}
	}
	if verb == 's' || verb == 'v' || verb == 'q' {
		if s, ok := in.stringerOf(fr, t, v); ok {
			if verb == 'q' {
				return in.intrinsic(fr, "strconv.Quote", []Value{s}, nil)
			}
			return s
		}
	}
	switch x := v.(type) {
	case string:
		if directive == "%s" || directive == "%v" {
			return x
		}
		return fmt.Sprintf(directive, x)
	case *Rope:
		switch verb {
		case 's', 'v':
			if len(directive) == 2 {
				return x
			}
		case 'q':
			return in.intrinsic(fr, "strconv.Quote", []Value{x}, nil)
		}
		panic(pathAbort{"unsupported: format " + directive + " of a symbolic string"})
	case int64, float64, bool:
		return fmt.Sprintf(directive, nativeOf(x, t))
	case *Term:
		switch {
		case x.sort.IsBV() && (directive == "%d" || directive == "%v"):
			w, signed := bits(t)
			tt := x
			if w < 64 {
				ext := "zero_extend"
				if signed {
					ext = "sign_extend"
				}
				tt = in.ts.Mk(fmt.Sprintf("(_ %s %d)", ext, 64-w), SBV(64), x)
			} else if !signed {
				return &Rope{[]Chunk{{atom: in.newAtom("opaque", nil, nil, "fmtuint("+x.Pretty(3)+")")}}}
			}
			return &Rope{[]Chunk{{atom: in.newAtom("fmtint", tt, nil, "")}}}
		case x.sort == SBool && (directive == "%v" || directive == "%t"):
			return &Rope{[]Chunk{{atom: in.newAtom("fmtbool", x, nil, "")}}}
		}
		return &Rope{[]Chunk{{atom: in.newAtom("opaque", nil, nil, "fmt("+directive+","+x.Pretty(3)+")")}}}
	case Ptr:
		if x.c == nil {
			if verb == 'p' {
				return "0x0"
			}
			return "<nil>"
		}
		if verb == 'p' || verb == 'v' || verb == 's' {
			if verb != 'p' {
				if s, ok := x.c.v.(*Struct); ok {
					return strConcat("&", in.formatArg(fr, directive, verb, s))
				}
			}
			return fmt.Sprintf("0x%x", in.addrOf(x.c))
		}
	case Slice:
		var out Value = "["
		for k := 0; k < x.len; k++ {
			if k > 0 {
				out = strConcat(out, " ")
			}
			var et types.Type
			if t != nil {
				if st, ok := t.Underlying().(*types.Slice); ok {
					et = st.Elem()
				}
			}
			ev := x.arr.elems[x.off+k].v
			if _, isI := ev.(Iface); !isI && et != nil {
				ev = Iface{t: et, v: ev}
			}
			out = strConcat(out, in.formatArg(fr, directive, verb, ev))
		}
		return strConcat(out, "]")
	case *Struct:
		var out Value = "{"
		st := x.typ.Underlying().(*types.Struct)
		for k, f := range x.fields {
			if k > 0 {
				out = strConcat(out, " ")
			}
			out = strConcat(out, in.formatArg(fr, directive, verb, Iface{t: st.Field(k).Type(), v: f.v}))
		}
		return strConcat(out, "}")
	case *Map:
		return "map[…]"
	case *Closure:
		return "0xf00"
	case Iface:
		return in.formatArg(fr, directive, verb, x)
	case nil:
		return "<nil>"
	case *synthErr:
		return x.msg
	case Host:
		return fmt.Sprintf(directive, x.v)
	case *RType:
		return x.t.String()
	case *RVal:
		if x.t == nil {
			return "<invalid reflect.Value>"
		}
		return in.formatArg(fr, directive, verb, Iface{t: x.t, v: x.v})
	}
	panic(pathAbort{fmt.Sprintf("unsupported: format %s of %T", directive, v)})
}

func (in *Interp) sprintf(fr *Frame, formatV Value, args Slice) Value {
	format, ok := formatV.(string)
	if !ok {
		panic(pathAbort{"unsupported: symbolic format string"})
	}
	var out Value = ""
	var lit strings.Builder
	flush := func() {
		if lit.Len() > 0 {
			out = strConcat(out, lit.String())
			lit.Reset()
		}
	}
	ai := 0
	for i := 0; i < len(format); i++ {
		if format[i] != '%' {
			lit.WriteByte(format[i])
			continue
		}
		j := i + 1
		for j < len(format) && strings.IndexByte("+-# 0123456789.", format[j]) >= 0 {
			j++
		}
		if j >= len(format) {
			lit.WriteString("%!(NOVERB)")
			break
		}
		verb := format[j]
		directive := format[i : j+1]
		i = j
		if verb == '%' {
			lit.WriteByte('%')
			continue
		}
		if verb == 'w' {
			verb = 'v'
			directive = "%v"
		}
		if ai >= args.len {
			lit.WriteString("%!" + string(verb) + "(MISSING)")
			continue
		}
		a := args.arr.elems[args.off+ai].v
		ai++
		flush()
		out = strConcat(out, in.formatArg(fr, directive, verb, a))
	}
	flush()
	if ai < args.len {
		out = strConcat(out, "%!(EXTRA …)")
	}
	return out
}

func (in *Interp) sprint(fr *Frame, args Slice, ln bool) Value {
	var out Value = ""
	prevString := true
	for k := 0; k < args.len; k++ {
		a := args.arr.elems[args.off+k].v
		isStr := false
		if ia, ok := a.(Iface); ok {
			switch ia.v.(type) {
			case string, *Rope:
				isStr = basicKind(ia.t) == types.String
			}
		}
		if k > 0 && (ln || (!isStr && !prevString)) {
			out = strConcat(out, " ")
		}
		out = strConcat(out, in.formatArg(fr, "%v", 'v', a))
		prevString = isStr
	}
	return out
}
