package main

import (
	"fmt"
	"go/constant"
	"go/token"
	"go/types"
	"math/rand"
	"os"
	"sort"
	"strings"

	"golang.org/x/tools/go/ssa"
)

const repoPrefix = "github.com/goghcrow/yae"
const svPath = repoPrefix + "/zzverif/sv"

type fnInfo struct {
	idx map[ssa.Value]int
	n   int
	// interpretation policy, computed once
	interpret bool
	name      string
}

type Frame struct {
	fn        *ssa.Function
	info      *fnInfo
	regs      []Value
	defers    []func()
	result    Value
	panicking *GoPanic
	caller    *Frame
	done      bool
	curPos    token.Pos
}

type decisionRec struct {
	n       int
	k       int
	feas    []bool // alternatives known feasible (computed at first visit)
	donated []bool
	name    string // choice name ("" for branch decisions)
}

type inputRec struct {
	Name string
	Sort Sort
	term *Term
}

type Interp struct {
	prog       *ssa.Program
	ts         *TermStore
	sol        *Solver
	sol2, sol3 *Solver
	globals    map[*ssa.Global]*Cell
	fnInfos    map[*ssa.Function]*fnInfo
	inited     map[*ssa.Package]bool
	builders   map[*Cell]*Value

	logging  bool
	undo     []undoRec
	mundo    []mapUndo
	nextAddr int

	// per path
	pc          []*Term
	trace       []decisionRec
	prefix      []decisionRec
	steps       int
	fuel        int
	depth       int
	inputs      []inputRec
	inputSeen   map[string]int
	events      []string
	reached     map[string]bool
	stdout      []Value
	atomSeq     int
	atomLens    map[int]*Term
	orderVars   map[string]*Term
	mapOrder    int
	feasUnknown int
	curFrame    *Frame

	// per run
	notes                map[string]bool
	thorough             bool
	funcsRun             map[*ssa.Function]int
	stats                *RunStats
	cfg                  *Config
	pathHook             func(ev string)
	results              *harnessResult
	harness              string
	stuFns               map[string]*Term // uninterpreted function applications
	ufApps               []ufApp          // the same, in creation order (ufrefine.go)
	regions              map[string]*Term
	model                map[string]uint64 // a model of the current pc (nil if none known)
	modelHits            int
	altModel             map[string]uint64
	f2iSrc               map[int]*Term
	pcSet                map[int]bool
	fixedLog             []WitnessChoice
	lenient              int
	byteDom              map[string]*[4]uint64
	entangled            map[string]bool
	synHits              int
	setups               map[string]Value
	rng                  *rand.Rand
	guessHits, guessMiss int
	setupCells           map[*Cell]bool
	setupMaps            map[*Map]bool
	self                 *selfState // translator validation (selftest.go)
	epoch                int        // incremented per path (map snapshots, value.go)
	unwinding            bool       // a fatalStack panic is in flight
	castRaised, castSeen int        // mis-typed variant accesses raised / reported to the harness by sv.Outcome
}

func newInterp(prog *ssa.Program, cfg *Config) *Interp {
	in := &Interp{prog: prog, ts: newTermStore(), globals: map[*ssa.Global]*Cell{},
		fnInfos: map[*ssa.Function]*fnInfo{}, inited: map[*ssa.Package]bool{},
		setups: map[string]Value{}, notes: map[string]bool{}, funcsRun: map[*ssa.Function]int{}, cfg: cfg,
		builders: map[*Cell]*Value{}}
	fast := cfg.TimeoutMs
	if fast > 2500 {
		fast = 2500
	}
	in.sol = newSolver(cfg.Solver, fast, false)
	in.resetPath()
	return in
}

func (in *Interp) note(s string) { in.notes[s] = true }

func (in *Interp) resetPath() {
	in.pc = in.pc[:0]
	in.trace = in.trace[:0]
	in.steps = 0
	in.depth = 0
	in.inputs = nil
	in.inputSeen = map[string]int{}
	in.events = nil
	in.reached = map[string]bool{}
	in.stdout = nil
	in.atomSeq = 0
	in.atomLens = map[int]*Term{}
	in.orderVars = map[string]*Term{}
	in.mapOrder = 0
	in.ts.fresh = 0
	in.stuFns = map[string]*Term{}
	in.ufApps = nil
	in.curFrame = nil
	in.model = map[string]uint64{}
	in.altModel = nil
	in.f2iSrc = map[int]*Term{}
	in.pcSet = map[int]bool{}
	in.fixedLog = nil
	in.byteDom = map[string]*[4]uint64{}
	in.entangled = map[string]bool{}
	in.castRaised, in.castSeen = 0, 0
	in.epoch++
}

func isRepoPkgPath(p string) bool {
	return strings.HasPrefix(p, repoPrefix) && !strings.HasSuffix(p, "/timelib")
}

// packages whose functions are interpreted from SSA when no intrinsic applies
var interpPkgs = map[string]bool{
	"encoding/binary": true, "unicode/utf8": true, "errors": true, "internal/byteorder": true,
}

// individual stdlib functions interpreted from SSA
var interpFuncs = map[string]bool{
	"time.Unix": true, "(time.Time).Equal": true, "(time.Time).Before": true, "(time.Time).After": true,
	"(time.Time).Unix": true, "(*time.Time).sec": true, "(*time.Time).nsec": true, "(*time.Time).unixSec": true,
	"(time.Time).Sub": true, "(time.Time).Compare": true, "(time.Time).Nanosecond": true, "time.subMono": true, "(time.Duration).Seconds": true,
	"(*time.Time).setLoc": true, "(*time.Time).stripMono": true, "(*time.Time).addSec": true, "(*time.Time).mono": true,
	"(*time.Time).setMono": true,
	"strconv.Itoa":         true,
	"math.IsNaN":           true, "math.IsInf": true, "math.Inf": true, "math.NaN": true, "math.Signbit": true,
	"sort.Strings": false,
}

var initPkgs = map[string]bool{"unicode/utf8": true, "encoding/binary": true, "time": true}

var timeIntrinsic = map[string]bool{
	"(time.Time).String": true, "(time.Time).Format": true, "(time.Time).UnixNano": true, "(time.Time).Year": true,
	"(time.Time).IsZero": true, "time.Now": true, "time.now": true, "time.runtimeNano": true, "time.Sleep": true,
	"(time.Time).GoString": true, "(time.Time).AppendFormat": true, "(time.Time).Date": true,
}

func pkgOfFn(fn *ssa.Function) *types.Package {
	if fn.Pkg != nil {
		return fn.Pkg.Pkg
	}
	if fn.Parent() != nil {
		return pkgOfFn(fn.Parent())
	}
	if o := fn.Object(); o != nil {
		return o.Pkg()
	}
	if o := fn.Origin(); o != nil {
		return pkgOfFn(o)
	}
	return nil
}

func (in *Interp) info(fn *ssa.Function) *fnInfo {
	if fi, ok := in.fnInfos[fn]; ok {
		return fi
	}
	fi := &fnInfo{idx: map[ssa.Value]int{}, name: fn.String()}
	for _, p := range fn.Params {
		fi.idx[p] = fi.n
		fi.n++
	}
	for _, fv := range fn.FreeVars {
		fi.idx[fv] = fi.n
		fi.n++
	}
	for _, b := range fn.Blocks {
		for _, ins := range b.Instrs {
			if v, ok := ins.(ssa.Value); ok {
				fi.idx[v] = fi.n
				fi.n++
			}
		}
	}
	p := pkgOfFn(fn)
	path := ""
	if p != nil {
		path = p.Path()
	}
	switch {
	case fn.Blocks == nil:
		fi.interpret = false
	case path == svPath:
		fi.interpret = false
	case isRepoPkgPath(path):
		fi.interpret = true
	case p == nil:
		// synthetic wrapper (bound method closure, thunk): interpret; its body
		// calls the real function which is dispatched again
		fi.interpret = true
	case interpPkgs[path], interpFuncs[fi.name]:
		fi.interpret = true
	case path == "time" && !timeIntrinsic[fi.name]:
		fi.interpret = true
	case path == "sort" && strings.HasSuffix(fn.Name(), "_func"):
		// the generic sorting algorithms over a lessSwap pair
		fi.interpret = true
	}
	if fn.Synthetic != "" && fn.Blocks != nil && path != svPath {
		// wrappers and bound-method thunks for any package
		if strings.HasPrefix(fn.Synthetic, "wrapper") || strings.HasPrefix(fn.Synthetic, "bound") || strings.HasPrefix(fn.Synthetic, "thunk") {
			fi.interpret = true
		}
	}
	in.fnInfos[fn] = fi
	return fi
}

func (in *Interp) global(g *ssa.Global) *Cell {
	c, ok := in.globals[g]
	if !ok {
		c = newCell(zero(g.Type().(*types.Pointer).Elem()), nil, 0)
		fixParents(c)
		in.globals[g] = c
	}
	return c
}

func (in *Interp) get(fr *Frame, v ssa.Value) Value {
	switch x := v.(type) {
	case *ssa.Const:
		return constVal(x)
	case *ssa.Global:
		return Ptr{c: in.global(x)}
	case *ssa.Function:
		return &Closure{fn: x}
	case *ssa.Builtin:
		return x
	}
	i, ok := fr.info.idx[v]
	if !ok {
		panic(fmt.Sprintf("engine: unbound %s in %s", v.Name(), fr.fn))
	}
	return fr.regs[i]
}

func (fr *Frame) set(v ssa.Value, x Value) { fr.regs[fr.info.idx[v]] = x }

func constVal(c *ssa.Const) Value {
	if c.Value == nil {
		return zero(c.Type())
	}
	switch u := c.Type().Underlying().(type) {
	case *types.Basic:
		switch {
		case u.Info()&types.IsBoolean != 0:
			return constant.BoolVal(c.Value)
		case u.Info()&types.IsInteger != 0:
			if i, ok := constant.Int64Val(constant.ToInt(c.Value)); ok {
				return i
			}
			u64, _ := constant.Uint64Val(constant.ToInt(c.Value))
			return int64(u64)
		case u.Info()&types.IsFloat != 0:
			f, _ := constant.Float64Val(c.Value)
			if u.Kind() == types.Float32 {
				return float64(float32(f))
			}
			return f
		case u.Info()&types.IsString != 0:
			return constant.StringVal(c.Value)
		}
	}
	if b, ok := c.Type().Underlying().(*types.Basic); ok && b.Info()&types.IsComplex != 0 {
		return Host{c.Value.String()}
	}
	panic("engine: const " + c.String())
}

func (in *Interp) posString(p token.Pos) string {
	if !p.IsValid() {
		return "?"
	}
	ps := in.prog.Fset.Position(p)
	return fmt.Sprintf("%s:%d", strings.TrimPrefix(ps.Filename, "/repo/"), ps.Line)
}

func (in *Interp) where() string {
	fr := in.curFrame
	for fr != nil && !fr.curPos.IsValid() {
		fr = fr.caller
	}
	if fr == nil {
		return "?"
	}
	return in.posString(fr.curPos)
}

func (in *Interp) castEvent(what string) {
	msg := "type-confused " + what + " at " + in.where()
	in.events = append(in.events, "cast: "+msg)
	in.castRaised++
	panic(&GoPanic{rt: msg, class: "cast"})
}

func (in *Interp) callValue(caller *Frame, fnv Value, args []Value) Value {
	switch f := fnv.(type) {
	case *Closure:
		if f == nil {
			panic(rtPanic("rt:nil", "invalid memory address or nil pointer dereference (nil func call)"))
		}
		if f.intr != "" {
			if f.recv != nil {
				args = append([]Value{f.recv}, args...)
			}
			return in.intrinsic(caller, f.intr, args, nil)
		}
		return in.callFn(caller, f.fn, args, f.env)
	case nil:
		panic(rtPanic("rt:nil", "invalid memory address or nil pointer dereference (nil func call)"))
	}
	panic(fmt.Sprintf("engine: call of %T", fnv))
}

var maxDepth = 20000

// fatalStack: the process is gone (stack overflow) or blocked for good
// (deadlock); why is the outcome class after "fatal:"
type fatalStack struct{ why string }

func (in *Interp) callFn(caller *Frame, fn *ssa.Function, args []Value, env []Value) (result Value) {
	fi := in.info(fn)
	if !fi.interpret {
		return in.intrinsic(caller, fi.name, args, fn)
	}
	if strings.HasSuffix(fi.name, ".init") {
		p := pkgOfFn(fn)
		if p == nil || !(isRepoPkgPath(p.Path()) || initPkgs[p.Path()]) {
			return nil
		}
		if !isRepoPkgPath(p.Path()) {
			// standard-library initialiser: calls the engine has no model for
			// yield zero values (tables and sentinel errors are what matters)
			in.lenient++
			defer func() { in.lenient-- }()
		}
	}
	in.funcsRun[fn]++
	in.depth++
	if in.depth > maxDepth {
		// Natively this much recursion ends in "fatal error: stack overflow":
		// the process dies, no recover() of the code under test runs. The
		// engine models that: fatalStack unwinds every interpreted frame
		// without running its deferred calls and is seen only by sv.Outcome
		// (class "fatal:stack-overflow") or, failing that, ends the path as a
		// violation. Whether the native stack really overflows at the depth
		// the engine stops at is settled by the native replay.
		in.events = append(in.events, "fatal: call depth > "+fmt.Sprint(maxDepth)+" (stack overflow) at "+in.where())
		in.unwinding = true
		panic(fatalStack{"stack-overflow"})
	}
	fr := &Frame{fn: fn, info: fi, regs: make([]Value, fi.n), caller: caller}
	if len(args) != len(fn.Params) {
		panic(fmt.Sprintf("engine: %s called with %d args, want %d", fn, len(args), len(fn.Params)))
	}
	copy(fr.regs, args)
	copy(fr.regs[len(fn.Params):], env)
	saved := in.curFrame
	in.curFrame = fr
	defer func() {
		in.depth--
		in.curFrame = saved
		if fr.done {
			return
		}
		if in.unwinding {
			// fatal unwinding: no deferred call of the code under test runs and
			// the Go panic is left in flight (re-panicking in every frame is
			// quadratic in the depth)
			return
		}
		r := recover()
		gp, ok := r.(*GoPanic)
		if !ok {
			panic(r)
		}
		in.curFrame = fr
		fr.panicking = gp
		in.runDefers(fr)
		in.curFrame = saved
		if fr.panicking == nil { // recovered
			if fn.Recover != nil {
				in.curFrame = fr
				in.runBlocks(fr, fn.Recover)
				in.curFrame = saved
				result = fr.result
			} else {
				result = zeroResult(fn)
			}
			return
		}
		panic(fr.panicking)
	}()
	in.runBlocks(fr, fn.Blocks[0])
	return fr.result
}

func zeroResult(fn *ssa.Function) Value {
	res := fn.Signature.Results()
	switch res.Len() {
	case 0:
		return nil
	case 1:
		return zero(res.At(0).Type())
	}
	return zero(res)
}

func (in *Interp) runDefers(fr *Frame) {
	for len(fr.defers) > 0 {
		d := fr.defers[len(fr.defers)-1]
		fr.defers = fr.defers[:len(fr.defers)-1]
		func() {
			defer func() {
				if r := recover(); r != nil {
					if gp, ok := r.(*GoPanic); ok {
						// a deferred call panicked: it replaces the current panic
						fr.panicking = gp
						return
					}
					panic(r)
				}
			}()
			d()
		}()
	}
}

func (in *Interp) runBlocks(fr *Frame, b *ssa.BasicBlock) {
	var prev *ssa.BasicBlock
	for {
		var next *ssa.BasicBlock
		for _, instr := range b.Instrs {
			in.steps++
			if in.steps > in.fuel {
				panic(pathAbort{fmt.Sprintf("unwound: fuel of %d SSA steps exhausted", in.fuel)})
			}
			if p := instr.Pos(); p.IsValid() {
				fr.curPos = p
			}
			switch i := instr.(type) {
			case *ssa.Phi:
				for k, p := range b.Preds {
					if p == prev {
						fr.set(i, in.get(fr, i.Edges[k]))
						break
					}
				}
			case *ssa.If:
				c := in.get(fr, i.Cond)
				var take bool
				if t, ok := c.(*Term); ok {
					take = in.decide(t)
				} else {
					take = c.(bool)
				}
				if take {
					next = b.Succs[0]
				} else {
					next = b.Succs[1]
				}
			case *ssa.Jump:
				next = b.Succs[0]
			case *ssa.Return:
				switch len(i.Results) {
				case 0:
				case 1:
					fr.result = in.get(fr, i.Results[0])
				default:
					t := make(Tuple, len(i.Results))
					for k, r := range i.Results {
						t[k] = in.get(fr, r)
					}
					fr.result = t
				}
				fr.done = true
				return
			case *ssa.Panic:
				panic(&GoPanic{val: in.get(fr, i.X)})
			case *ssa.RunDefers:
				in.runDefers(fr)
				if fr.panicking != nil {
					gp := fr.panicking
					panic(gp)
				}
			case *ssa.Defer:
				fnv := in.callee(fr, &i.Call)
				args := in.args(fr, &i.Call)
				call := &i.Call
				fr.defers = append(fr.defers, func() { in.callv(fr, fnv, args, call) })
			case *ssa.Store:
				in.store(in.get(fr, i.Addr).(Ptr), in.get(fr, i.Val))
			case *ssa.MapUpdate:
				m := in.get(fr, i.Map).(*Map)
				if m == nil {
					panic(rtPanic("rt:other", "assignment to entry in nil map"))
				}
				in.mapPut(m, in.get(fr, i.Key), in.get(fr, i.Value))
			case *ssa.DebugRef:
			case ssa.Value:
				fr.set(i, in.eval(fr, i))
			default:
				panic(pathAbort{fmt.Sprintf("unsupported: SSA instruction %T in %s", instr, fr.fn)})
			}
		}
		prev, b = b, next
	}
}

func (in *Interp) callee(fr *Frame, c *ssa.CallCommon) Value {
	if c.IsInvoke() {
		recv, ok := in.get(fr, c.Value).(Iface)
		if !ok || recv.t == nil {
			panic(rtPanic("rt:nil", "invalid memory address or nil pointer dereference (nil interface method call)"))
		}
		if _, isSyn := recv.v.(*synthErr); isSyn {
			return &Closure{intr: "synthErr." + c.Method.Name()}
		}
		if _, isRT := recv.v.(*RType); isRT {
			return &Closure{intr: "reflect.Type." + c.Method.Name()}
		}
		fn := in.lookupMethod(recv.t, c.Method)
		if fn == nil {
			panic(fmt.Sprintf("engine: no method %s on %s", c.Method.Name(), recv.t))
		}
		return &Closure{fn: fn}
	}
	return in.get(fr, c.Value)
}

func (in *Interp) lookupMethod(t types.Type, m *types.Func) *ssa.Function {
	return in.prog.LookupMethod(t, m.Pkg(), m.Name())
}

func (in *Interp) args(fr *Frame, c *ssa.CallCommon) []Value {
	n := len(c.Args)
	if c.IsInvoke() {
		n++
	}
	args := make([]Value, 0, n)
	if c.IsInvoke() {
		args = append(args, in.get(fr, c.Value).(Iface).v)
	}
	for _, a := range c.Args {
		args = append(args, in.get(fr, a))
	}
	return args
}

func (in *Interp) callv(fr *Frame, fnv Value, args []Value, c *ssa.CallCommon) Value {
	if b, ok := fnv.(*ssa.Builtin); ok {
		return in.builtin(fr, b, args, c)
	}
	return in.callValue(fr, fnv, args)
}

// ---- maps

func (in *Interp) mapFind(m *Map, k Value) (*MapEntry, bool) {
	if m == nil {
		return nil, false
	}
	ks, conc := in.keyOf(k)
	if conc && m.symKeys == 0 {
		if i, ok := m.idx[ks]; ok {
			return m.entries[i], true
		}
		return nil, false
	}
	// linear scan with (possibly symbolic) comparisons, in insertion order
	for _, e := range m.entries {
		if e.deleted {
			continue
		}
		eq := in.valEq(e.k, k)
		switch c := eq.(type) {
		case bool:
			if c {
				return e, true
			}
		case *Term:
			if in.decide(c) {
				return e, true
			}
		}
	}
	return nil, false
}

func (in *Interp) mapPut(m *Map, k, v Value) {
	in.saveMap(m)
	if e, ok := in.mapFind(m, k); ok {
		e.v = copyVal(v)
		return
	}
	ks, conc := in.keyOf(k)
	m.entries = append(m.entries, &MapEntry{k: copyVal(k), v: copyVal(v)})
	m.live++
	if conc {
		m.idx[ks] = len(m.entries) - 1
	} else {
		m.symKeys++
	}
}

func (in *Interp) mapDelete(m *Map, k Value) {
	if m == nil {
		return
	}
	e, ok := in.mapFind(m, k)
	if !ok {
		return
	}
	in.saveMap(m)
	// saveMap copied entries; find again in the live slice
	e, _ = in.mapFind(m, k)
	e.deleted = true
	m.live--
	if ks, conc := in.keyOf(e.k); conc {
		delete(m.idx, ks)
	} else {
		m.symKeys--
	}
}

type mapIter struct {
	ents []*MapEntry
	i    int
}

func (in *Interp) mapRange(m *Map) *mapIter {
	it := &mapIter{}
	if m == nil {
		return it
	}
	for _, e := range m.entries {
		if !e.deleted {
			it.ents = append(it.ents, e)
		}
	}
	n := len(it.ents)
	if in.mapOrder == 1 && n > 1 {
		if n > 5 {
			panic(pathAbort{"unsupported: all-orders iteration over a map with more than 5 entries"})
		}
		// choose a permutation: Go's randomised order as a symbolic schedule
		rest := it.ents
		var out []*MapEntry
		for len(rest) > 1 {
			k := in.choose("maporder", len(rest))
			out = append(out, rest[k])
			nr := make([]*MapEntry, 0, len(rest)-1)
			nr = append(nr, rest[:k]...)
			nr = append(nr, rest[k+1:]...)
			rest = nr
		}
		it.ents = append(out, rest...)
	} else if in.mapOrder == 2 && n > 1 {
		// reversed insertion order (cheap second schedule)
		for i, j := 0, n-1; i < j; i, j = i+1, j-1 {
			it.ents[i], it.ents[j] = it.ents[j], it.ents[i]
		}
	}
	return it
}

// ---- decisions

func (in *Interp) addPC(t *Term) {
	if t.IsTrue() {
		return
	}
	in.pc = append(in.pc, t)
	in.pcSet[t.id] = true
	in.narrowBytes(t)
	if in.model != nil && !in.holds(t) {
		in.model = nil
	}
}

// holds: t evaluates to true under the cached model (every variable not in
// the model is 0, which is how the model is completed).
func (in *Interp) holds(t *Term) bool {
	if in.model == nil {
		return false
	}
	v, ok := t.Eval(in.model, map[int]uint64{})
	return ok && v == 1
}

// feasible decides sat(pc ∧ c), using and refreshing the cached model.
func (in *Interp) feasible(c *Term) string {
	// syntactic: c or its negation is already on the path condition
	if in.pcSet[in.ts.Not(c).id] {
		in.synHits++
		return "unsat"
	}
	if in.pcSet[c.id] {
		in.synHits++
		if !in.holds(c) {
			in.altModel = in.model
		}
		return "sat"
	}
	if c.op == "and" {
		for _, a := range c.args {
			if in.pcSet[in.ts.Not(a).id] {
				in.synHits++
				return "unsat"
			}
		}
	}
	if r := in.byteFeasible(c); r != "" {
		in.synHits++
		return r
	}
	if in.holds(c) {
		in.modelHits++
		return "sat"
	}
	if m := in.guessSat(c); m != nil {
		in.altModel = m
		return "sat"
	}
	r := in.check(c, true)
	if r.Res == "sat" && r.Err == "" {
		// keep the new model only as a model of pc ∧ c; it is also a model of pc
		in.altModel = r.Model
	}
	return r.Res
}

func (in *Interp) check(extra *Term, wantModel bool) Result {
	as := make([]*Term, 0, len(in.pc)+1)
	as = append(as, in.pc...)
	if extra != nil {
		as = append(as, extra)
	}
	r := in.sol.Check(as, wantModel, nil)
	if r.Res == "unknown" {
		// portfolio: the same query as a fresh problem with the full time-out,
		// then the other solver
		if in.sol2 == nil {
			in.sol2 = newSolver(in.cfg.Solver, in.cfg.TimeoutMs, true)
		}
		r = in.sol2.Check(as, wantModel, nil)
		if r.Res == "unknown" && in.cfg.Solver != "cvc5" {
			if in.sol3 == nil {
				in.sol3 = newSolver("cvc5", in.cfg.TimeoutMs, true)
			}
			r = in.sol3.Check(as, wantModel, nil)
		}
	}
	if r.Res == "unknown" {
		if dir := os.Getenv("SYMGO_QLOG"); dir != "" {
			qlogSeq++
			os.WriteFile(fmt.Sprintf("%s/q%d_%d.smt2", dir, os.Getpid(), qlogSeq), []byte(standaloneSMT(as)), 0o644)
		}
	}
	return r
}

var qlogSeq int

// decide branches on a symbolic condition.
func (in *Interp) decide(c *Term) bool {
	if c.IsConst() {
		return c.IsTrue()
	}
	k := in.branch(2, "", func(k int) *Term {
		if k == 0 {
			return c
		}
		return in.ts.Not(c)
	})
	return k == 0
}

// choose makes a structural choice among n alternatives (no solver call).
func (in *Interp) choose(name string, n int) int {
	if n <= 1 {
		return 0
	}
	if k, ok := in.cfg.Fix[name]; ok && k < n {
		in.fixedLog = append(in.fixedLog, WitnessChoice{Name: name, K: k, N: n})
		return k
	}
	return in.branch(n, name, nil)
}

func (in *Interp) branch(n int, name string, cond func(k int) *Term) int {
	p := len(in.trace)
	if p < len(in.prefix) {
		rec := in.prefix[p]
		if rec.n != n {
			panic(pathAbort{fmt.Sprintf("engine: non-deterministic re-execution at decision %d (n=%d, recorded %d)", p, n, rec.n)})
		}
		in.trace = append(in.trace, rec)
		if cond != nil {
			in.addPC(cond(rec.k))
		}
		return rec.k
	}
	if p > in.cfg.MaxDecisions {
		panic(pathAbort{fmt.Sprintf("unwound: more than %d decisions on one path", in.cfg.MaxDecisions)})
	}
	rec := decisionRec{n: n, name: name, feas: make([]bool, n), donated: make([]bool, n)}
	if cond == nil {
		for k := range rec.feas {
			rec.feas[k] = true
		}
	} else {
		var models []map[string]uint64
		models = make([]map[string]uint64, n)
		nfeas := 0
		for k := 0; k < n; k++ {
			if n == 2 && k == 1 && nfeas == 0 {
				// pc is satisfiable and cond(0) is not: cond(1) is
				rec.feas[1] = true
				break
			}
			in.altModel = nil
			held := in.holds(cond(k))
			r := in.feasible(cond(k))
			if r != "unsat" {
				rec.feas[k] = true
				nfeas++
				if r == "unknown" {
					in.feasUnknown++
				}
				if held {
					models[k] = in.model
				} else {
					models[k] = in.altModel
				}
			}
		}
		// adopt the model of the alternative that will be taken first
		for k := 0; k < n; k++ {
			if rec.feas[k] {
				in.model = models[k]
				break
			}
		}
	}
	rec.k = -1
	for k := 0; k < n; k++ {
		if rec.feas[k] {
			rec.k = k
			break
		}
	}
	if rec.k < 0 {
		panic(pathEnd{"infeasible"})
	}
	in.trace = append(in.trace, rec)
	if cond != nil {
		in.addPC(cond(rec.k))
	}
	return rec.k
}

// assume adds c to the path condition; ends the path if infeasible.
func (in *Interp) assume(c Value) {
	switch x := c.(type) {
	case bool:
		if !x {
			panic(pathEnd{"assume false"})
		}
	case *Term:
		in.altModel = nil
		held := in.holds(x)
		r := in.feasible(x)
		if r == "unsat" {
			panic(pathEnd{"assume infeasible"})
		}
		if r == "unknown" {
			in.feasUnknown++
		}
		if !held {
			in.model = in.altModel
		}
		in.addPC(x)
	}
}

func sortedKeys(m map[string]bool) []string {
	out := make([]string, 0, len(m))
	for k := range m {
		out = append(out, k)
	}
	sort.Strings(out)
	return out
}

// ---- exact domains for independent symbolic bytes
//
// A BV8 input constrained only by single-variable conditions is tracked as a
// 256-bit set of admissible values; feasibility of a further single-variable
// condition is then decided by evaluation over that set (exact, no solver).

func singleByteVar(t *Term) (*Term, int) {
	vars := map[string]*Term{}
	t.Vars(map[int]bool{}, vars)
	if len(vars) != 1 {
		return nil, len(vars)
	}
	for _, v := range vars {
		if v.sort == SBV(8) {
			return v, 1
		}
	}
	return nil, 1
}

func (in *Interp) narrowBytes(t *Term) {
	v, n := singleByteVar(t)
	if v == nil {
		if n > 1 {
			vars := map[string]*Term{}
			t.Vars(map[int]bool{}, vars)
			for name, x := range vars {
				if x.sort == SBV(8) {
					in.entangled[name] = true
				}
			}
		}
		return
	}
	dom := in.byteDom[v.name]
	if dom == nil {
		dom = &[4]uint64{^uint64(0), ^uint64(0), ^uint64(0), ^uint64(0)}
		in.byteDom[v.name] = dom
	}
	m := map[string]uint64{}
	for x := 0; x < 256; x++ {
		if dom[x/64]&(1<<uint(x%64)) == 0 {
			continue
		}
		m[v.name] = uint64(x)
		if r, ok := t.Eval(m, map[int]uint64{}); !ok {
			in.entangled[v.name] = true // not evaluable: leave it to the solver
			return
		} else if r != 1 {
			dom[x/64] &^= 1 << uint(x%64)
		}
	}
}

func (in *Interp) byteFeasible(c *Term) string {
	v, _ := singleByteVar(c)
	if v == nil || in.entangled[v.name] {
		return ""
	}
	dom := in.byteDom[v.name]
	m := map[string]uint64{}
	for x := 0; x < 256; x++ {
		if dom != nil && dom[x/64]&(1<<uint(x%64)) == 0 {
			continue
		}
		m[v.name] = uint64(x)
		r, ok := c.Eval(m, map[int]uint64{})
		if !ok {
			return ""
		}
		if r == 1 {
			if in.model != nil {
				nm := make(map[string]uint64, len(in.model)+1)
				for k, val := range in.model {
					nm[k] = val
				}
				nm[v.name] = uint64(x)
				in.altModel = nm
			}
			return "sat"
		}
	}
	return "unsat"
}
