package main

// A model of the part of package reflect that yae's conv package uses
// (DESIGN §2.6), implemented over the engine's typed heap: every cell value
// carries enough structure, and every SSA value a static go/types type, to
// answer Kind / Elem / Field / MapKeys ... exactly.

import (
	"go/token"
	"fmt"
	"go/types"
	"reflect"
	"strings"
)

type RVal struct {
	t types.Type // nil: the zero (invalid) reflect.Value
	v Value
}

type RType struct{ t types.Type }

var rtypeT = types.NewNamed(types.NewTypeName(0, nil, "*reflect.rtype", nil), types.NewStruct(nil, nil), nil)

func rtypeIface(t types.Type) Value { return Iface{t: rtypeT, v: &RType{t}} }

func kindOf(t types.Type) int64 {
	switch u := t.Underlying().(type) {
	case *types.Basic:
		switch u.Kind() {
		case types.Bool:
			return int64(reflect.Bool)
		case types.Int:
			return int64(reflect.Int)
		case types.Int8:
			return int64(reflect.Int8)
		case types.Int16:
			return int64(reflect.Int16)
		case types.Int32:
			return int64(reflect.Int32)
		case types.Int64:
			return int64(reflect.Int64)
		case types.Uint:
			return int64(reflect.Uint)
		case types.Uint8:
			return int64(reflect.Uint8)
		case types.Uint16:
			return int64(reflect.Uint16)
		case types.Uint32:
			return int64(reflect.Uint32)
		case types.Uint64:
			return int64(reflect.Uint64)
		case types.Uintptr:
			return int64(reflect.Uintptr)
		case types.Float32:
			return int64(reflect.Float32)
		case types.Float64:
			return int64(reflect.Float64)
		case types.Complex64:
			return int64(reflect.Complex64)
		case types.Complex128:
			return int64(reflect.Complex128)
		case types.String:
			return int64(reflect.String)
		case types.UnsafePointer:
			return int64(reflect.UnsafePointer)
		}
	case *types.Array:
		return int64(reflect.Array)
	case *types.Chan:
		return int64(reflect.Chan)
	case *types.Signature:
		return int64(reflect.Func)
	case *types.Interface:
		return int64(reflect.Interface)
	case *types.Map:
		return int64(reflect.Map)
	case *types.Pointer:
		return int64(reflect.Pointer)
	case *types.Slice:
		return int64(reflect.Slice)
	case *types.Struct:
		return int64(reflect.Struct)
	}
	return int64(reflect.Invalid)
}

func (in *Interp) reflectPkgType(name string) types.Type {
	for _, p := range in.prog.AllPackages() {
		if p.Pkg.Path() == "reflect" {
			if m := p.Type(name); m != nil {
				return m.Type()
			}
		}
	}
	panic("engine: reflect." + name + " not loaded")
}

func rvOf(v Value) *RVal {
	switch x := v.(type) {
	case *RVal:
		return x
	case *Struct: // zero reflect.Value
		return &RVal{}
	}
	panic(fmt.Sprintf("engine: reflect.Value is %T", v))
}

func reflectPanic(msg string) *GoPanic {
	return &GoPanic{val: Iface{t: stringType, v: msg}}
}

func (in *Interp) reflectIntrinsic(fr *Frame, name string, args []Value) (Value, bool) {
	switch name {
	case "reflect.ValueOf":
		i := args[0].(Iface)
		if i.t == nil {
			return &RVal{}, true
		}
		return &RVal{t: i.t, v: i.v}, true
	case "reflect.TypeOf":
		i := args[0].(Iface)
		if i.t == nil {
			return Iface{}, true
		}
		return rtypeIface(i.t), true
	case "(reflect.Kind).String":
		if k, ok := args[0].(int64); ok {
			return reflect.Kind(k).String(), true
		}
		if k, ok := args[0].(uint64); ok {
			return reflect.Kind(k).String(), true
		}
	}
	if strings.HasPrefix(name, "(reflect.Value).") {
		rv := rvOf(args[0])
		m := name[len("(reflect.Value)."):]
		if rv.t == nil && m != "IsValid" && m != "Kind" && m != "String" {
			panic(reflectPanic("reflect: call of reflect.Value." + m + " on zero Value"))
		}
		switch m {
		case "IsValid":
			return rv.t != nil, true
		case "Kind":
			if rv.t == nil {
				return int64(reflect.Invalid), true
			}
			return kindOf(rv.t), true
		case "Type":
			return rtypeIface(rv.t), true
		case "IsNil":
			switch x := rv.v.(type) {
			case Ptr:
				return x.c == nil, true
			case *Map:
				return x == nil, true
			case Slice:
				return x.arr == nil, true
			case Iface:
				return x.t == nil, true
			case *Closure:
				return x == nil, true
			case nil:
				return true, true
			}
			panic(reflectPanic("reflect: call of reflect.Value.IsNil on " + rv.t.String() + " Value"))
		case "IsZero":
			// nil-able kinds: nil; everything else: equal to the zero value of
			// its type (since Go 1.22 a negative floating-point zero is zero)
			switch x := rv.v.(type) {
			case Ptr:
				return x.c == nil, true
			case *Map:
				return x == nil, true
			case Slice:
				return x.arr == nil, true
			case Iface:
				return x.t == nil, true
			case *Closure:
				return x == nil, true
			case nil:
				return true, true
			}
			return in.binop(token.EQL, rv.v, zero(rv.t), rv.t, rv.t), true
		case "Elem":
			switch x := rv.v.(type) {
			case Ptr:
				if x.c == nil {
					return &RVal{}, true
				}
				return &RVal{t: rv.t.Underlying().(*types.Pointer).Elem(), v: copyVal(x.c.v)}, true
			case Iface:
				if x.t == nil {
					return &RVal{}, true
				}
				return &RVal{t: x.t, v: x.v}, true
			}
			panic(reflectPanic("reflect: call of reflect.Value.Elem on " + rv.t.String() + " Value"))
		case "Len":
			switch x := rv.v.(type) {
			case Slice:
				return int64(x.len), true
			case *Array:
				return int64(len(x.elems)), true
			case *Map:
				if x == nil {
					return int64(0), true
				}
				return int64(x.live), true
			case string, *Rope:
				return in.strLen(x), true
			}
			panic(reflectPanic("reflect: call of reflect.Value.Len on " + rv.t.String() + " Value"))
		case "Index":
			k := in.concreteInt(args[1], "reflect index")
			switch x := rv.v.(type) {
			case Slice:
				if k < 0 || k >= x.len {
					panic(reflectPanic("reflect: slice index out of range"))
				}
				return &RVal{t: rv.t.Underlying().(*types.Slice).Elem(), v: copyVal(x.arr.elems[x.off+k].v)}, true
			case *Array:
				if k < 0 || k >= len(x.elems) {
					panic(reflectPanic("reflect: array index out of range"))
				}
				return &RVal{t: rv.t.Underlying().(*types.Array).Elem(), v: copyVal(x.elems[k].v)}, true
			}
			panic(reflectPanic("reflect: call of reflect.Value.Index on " + rv.t.String() + " Value"))
		case "MapKeys":
			mt, ok := rv.t.Underlying().(*types.Map)
			if !ok {
				panic(reflectPanic("reflect: call of reflect.Value.MapKeys on " + rv.t.String() + " Value"))
			}
			m, _ := rv.v.(*Map)
			arr := &Array{}
			it := in.mapRange(m) // Go's order is random: a schedule under sv.MapOrder
			for _, e := range it.ents {
				arr.elems = append(arr.elems, newCell(&RVal{t: mt.Key(), v: e.k}, nil, len(arr.elems)))
			}
			return Slice{arr, 0, len(arr.elems), len(arr.elems)}, true
		case "MapIndex":
			mt := rv.t.Underlying().(*types.Map)
			m, _ := rv.v.(*Map)
			k := rvOf(args[1])
			e, found := in.mapFind(m, k.v)
			if !found {
				return &RVal{}, true
			}
			return &RVal{t: mt.Elem(), v: copyVal(e.v)}, true
		case "NumField":
			st, ok := rv.t.Underlying().(*types.Struct)
			if !ok {
				panic(reflectPanic("reflect: call of reflect.Value.NumField on " + rv.t.String() + " Value"))
			}
			return int64(st.NumFields()), true
		case "Field":
			st := rv.t.Underlying().(*types.Struct)
			k := in.concreteInt(args[1], "reflect field")
			return &RVal{t: st.Field(k).Type(), v: rv.v.(*Struct).fields[k].v}, true
		case "CanInt":
			kd := kindOf(rv.t)
			return kd >= int64(reflect.Int) && kd <= int64(reflect.Int64), true
		case "CanUint":
			kd := kindOf(rv.t)
			return kd >= int64(reflect.Uint) && kd <= int64(reflect.Uintptr), true
		case "CanFloat":
			kd := kindOf(rv.t)
			return kd == int64(reflect.Float32) || kd == int64(reflect.Float64), true
		case "Int":
			if kd := kindOf(rv.t); kd < int64(reflect.Int) || kd > int64(reflect.Int64) {
				panic(reflectPanic("reflect: call of reflect.Value.Int on " + rv.t.String() + " Value"))
			}
			return in.convert(rv.v, rv.t, types.Typ[types.Int64]), true
		case "Uint":
			if kd := kindOf(rv.t); kd < int64(reflect.Uint) || kd > int64(reflect.Uintptr) {
				panic(reflectPanic("reflect: call of reflect.Value.Uint on " + rv.t.String() + " Value"))
			}
			return in.convert(rv.v, rv.t, types.Typ[types.Uint64]), true
		case "Float":
			if kd := kindOf(rv.t); kd != int64(reflect.Float32) && kd != int64(reflect.Float64) {
				panic(reflectPanic("reflect: call of reflect.Value.Float on " + rv.t.String() + " Value"))
			}
			return in.convert(rv.v, rv.t, types.Typ[types.Float64]), true
		case "Bool":
			if kindOf(rv.t) != int64(reflect.Bool) {
				panic(reflectPanic("reflect: call of reflect.Value.Bool on " + rv.t.String() + " Value"))
			}
			return rv.v, true
		case "String":
			if rv.t == nil {
				return "<invalid Value>", true
			}
			if kindOf(rv.t) == int64(reflect.String) {
				return rv.v, true
			}
			return "<" + rv.t.String() + " Value>", true
		case "Interface":
			if i, ok := rv.v.(Iface); ok {
				if _, isI := rv.t.Underlying().(*types.Interface); isI {
					return i, true
				}
			}
			return Iface{t: rv.t, v: rv.v}, true
		case "Pointer":
			if p, ok := rv.v.(Ptr); ok {
				if p.c == nil {
					return int64(0), true
				}
				return in.addrOf(p.c), true
			}
			panic(pathAbort{"unsupported: reflect.Value.Pointer of a non-pointer"})
		case "CanInterface":
			return true, true
		}
		panic(pathAbort{"unsupported: reflect model has no " + name})
	}
	if strings.HasPrefix(name, "reflect.Type.") {
		rt := args[0].(*RType)
		m := name[len("reflect.Type."):]
		switch m {
		case "Kind":
			return kindOf(rt.t), true
		case "String", "Name":
			return rt.t.String(), true
		case "Elem":
			switch u := rt.t.Underlying().(type) {
			case *types.Pointer:
				return rtypeIface(u.Elem()), true
			case *types.Slice:
				return rtypeIface(u.Elem()), true
			case *types.Array:
				return rtypeIface(u.Elem()), true
			case *types.Map:
				return rtypeIface(u.Elem()), true
			case *types.Chan:
				return rtypeIface(u.Elem()), true
			}
			panic(reflectPanic("reflect: Elem of invalid type " + rt.t.String()))
		case "Key":
			if u, ok := rt.t.Underlying().(*types.Map); ok {
				return rtypeIface(u.Key()), true
			}
			panic(reflectPanic("reflect: Key of non-map type " + rt.t.String()))
		case "NumField":
			if u, ok := rt.t.Underlying().(*types.Struct); ok {
				return int64(u.NumFields()), true
			}
			panic(reflectPanic("reflect: NumField of non-struct type " + rt.t.String()))
		case "Field":
			u, ok := rt.t.Underlying().(*types.Struct)
			if !ok {
				panic(reflectPanic("reflect: Field of non-struct type " + rt.t.String()))
			}
			k := in.concreteInt(args[1], "reflect field")
			sf := newStruct(in.reflectPkgType("StructField"))
			st := sf.typ.Underlying().(*types.Struct)
			for i := 0; i < st.NumFields(); i++ {
				switch st.Field(i).Name() {
				case "Name":
					sf.fields[i].v = u.Field(k).Name()
				case "Type":
					sf.fields[i].v = rtypeIface(u.Field(k).Type())
				case "Tag":
					sf.fields[i].v = u.Tag(k)
				case "Anonymous":
					sf.fields[i].v = u.Field(k).Embedded()
				case "PkgPath":
					if !u.Field(k).Exported() {
						sf.fields[i].v = "pkg"
					}
				}
			}
			return sf, true
		}
		panic(pathAbort{"unsupported: reflect model has no " + name})
	}
	if name == "(reflect.StructTag).Get" {
		tag, ok1 := args[0].(string)
		key, ok2 := args[1].(string)
		if !ok1 || !ok2 {
			panic(pathAbort{"unsupported: symbolic struct tag"})
		}
		return reflect.StructTag(tag).Get(key), true
	}
	return nil, false
}
