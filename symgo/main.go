package main

import (
	"encoding/json"
	"flag"
	"fmt"
	"os"
	"os/exec"
	"path/filepath"
	"regexp"
	"runtime"
	"runtime/pprof"
	"sort"
	"strconv"
	"strings"
	"time"

	"golang.org/x/tools/go/packages"
	"golang.org/x/tools/go/ssa"
	"golang.org/x/tools/go/ssa/ssautil"
)

var (
	runTier  = "quick" // the tier of this run, handed to native replays (sv.Thorough() reads VERIF_TIER)
	repoDir  = "/repo"
	verifDir = "/verif"
)

func init() {
	// debugging aid: run against another checkout of goghcrow/yae (registered
	// commands never set this; they check /repo itself)
	if d := os.Getenv("SYMGO_REPO"); d != "" {
		repoDir = d
	}
	if d, err := strconv.Atoi(os.Getenv("SYMGO_MAXDEPTH")); err == nil && d > 0 {
		maxDepth = d
	}
	// debugging aid: develop harnesses in another checkout of /verif
	if d := os.Getenv("SYMGO_VERIF"); d != "" {
		verifDir = d
	}
}

func goEnv() []string {
	return append(os.Environ(), "GOFLAGS=-mod=mod", "GOPROXY=off", "GOSUMDB=off", "GOTOOLCHAIN=local", "CGO_ENABLED=1")
}

// overlayFiles maps harness sources into /repo paths.
func overlayFiles() (map[string]string, []string, error) {
	ov := map[string]string{}
	dirs := map[string]bool{}
	root := filepath.Join(verifDir, "harness")
	err := filepath.Walk(root, func(p string, fi os.FileInfo, err error) error {
		if err != nil || fi.IsDir() || !strings.HasSuffix(p, ".go") {
			return err
		}
		rel, _ := filepath.Rel(root, p)
		dir, file := filepath.Split(rel)
		dir = strings.TrimSuffix(dir, "/")
		var target string
		switch {
		case strings.HasPrefix(dir, "zzverif"):
			target = filepath.Join(repoDir, dir, file)
			if dir != "zzverif/sv" {
				dirs[repoPrefix+"/"+dir] = true
			}
		case dir == "_root":
			target = filepath.Join(repoDir, "zz_verif_"+file)
			dirs["."] = true
		default:
			target = filepath.Join(repoDir, dir, "zz_verif_"+file)
			dirs["./"+dir] = true
		}
		ov[target] = p
		return nil
	})
	var ds []string
	for d := range dirs {
		ds = append(ds, d)
	}
	sort.Strings(ds)
	return ov, ds, err
}

func loadProgram(patterns []string) (*ssa.Program, []*packages.Package, error) {
	ov, dirs, err := overlayFiles()
	if err != nil {
		return nil, nil, err
	}
	overlay := map[string][]byte{}
	for target, src := range ov {
		b, err := os.ReadFile(src)
		if err != nil {
			return nil, nil, err
		}
		overlay[target] = b
	}
	if len(patterns) == 0 {
		patterns = dirs
	}
	cfg := &packages.Config{Mode: packages.LoadAllSyntax, Dir: repoDir, Overlay: overlay,
		BuildFlags: []string{"-tags=verif"}, Env: goEnv(), Tests: loadTests}
	pkgs, err := packages.Load(cfg, patterns...)
	if err != nil {
		return nil, nil, err
	}
	nerr := 0
	packages.Visit(pkgs, nil, func(p *packages.Package) {
		for _, e := range p.Errors {
			fmt.Fprintln(os.Stderr, "load error:", e)
			nerr++
		}
	})
	if nerr > 0 {
		return nil, nil, fmt.Errorf("%d package load errors", nerr)
	}
	prog, _ := ssautil.AllPackages(pkgs, ssa.InstantiateGenerics)
	prog.Build()
	return prog, pkgs, nil
}

var harnessRe = regexp.MustCompile(`^H(\d\d)_`)

func findHarnesses(prog *ssa.Program, prop string, filter *regexp.Regexp) []*ssa.Function {
	var hs []*ssa.Function
	for _, p := range prog.AllPackages() {
		if !strings.HasPrefix(p.Pkg.Path(), repoPrefix) {
			continue
		}
		for name, m := range p.Members {
			fn, ok := m.(*ssa.Function)
			if !ok {
				continue
			}
			mm := harnessRe.FindStringSubmatch(name)
			if mm == nil {
				continue
			}
			if prop != "" && "C"+mm[1] != prop {
				continue
			}
			if filter != nil && !filter.MatchString(name) {
				continue
			}
			if fn.Signature.Params().Len() != 0 {
				continue
			}
			hs = append(hs, fn)
		}
	}
	sort.Slice(hs, func(i, j int) bool { return hs[i].Name() < hs[j].Name() })
	return hs
}

func loadKnown() []*KnownFinding {
	var out struct {
		Findings []*KnownFinding `json:"findings"`
	}
	b, err := os.ReadFile(filepath.Join(verifDir, "known_findings.json"))
	if err != nil {
		return nil
	}
	if err := json.Unmarshal(b, &out); err != nil {
		fmt.Fprintln(os.Stderr, "known_findings.json:", err)
		os.Exit(2)
	}
	return out.Findings
}

func main() {
	if len(os.Args) < 2 {
		fmt.Fprintln(os.Stderr, "usage: symgo check|replay|list|selfcheck ...")
		os.Exit(2)
	}
	if pf := os.Getenv("SYMGO_PROF"); pf != "" {
		f, _ := os.Create(pf)
		pprof.StartCPUProfile(f)
		defer pprof.StopCPUProfile()
		go func() {
			time.Sleep(90 * time.Second)
			pprof.StopCPUProfile()
			f.Close()
			os.Exit(3)
		}()
	}
	switch os.Args[1] {
	case "check":
		rc := cmdCheck(os.Args[2:])
		pprof.StopCPUProfile()
		os.Exit(rc)
	case "replay":
		os.Exit(cmdReplay(os.Args[2:]))
	case "selftest":
		os.Exit(cmdSelftest(os.Args[2:]))
	case "list":
		prog, _, err := loadProgram(nil)
		if err != nil {
			fmt.Fprintln(os.Stderr, err)
			os.Exit(2)
		}
		for _, h := range findHarnesses(prog, "", nil) {
			fmt.Println(h.Pkg.Pkg.Path(), h.Name())
		}
	default:
		fmt.Fprintln(os.Stderr, "unknown command", os.Args[1])
		os.Exit(2)
	}
}

func cmdCheck(args []string) int {
	fs := flag.NewFlagSet("check", flag.ExitOnError)
	prop := fs.String("prop", "", "property id (C01..C20)")
	tier := fs.String("tier", envOr("VERIF_TIER", "quick"), "quick|thorough")
	filter := fs.String("harness", "", "regexp on harness names")
	solver := fs.String("solver", "z3", "z3|z3-new|cvc5")
	workers := fs.Int("workers", 0, "worker count (default: cores)")
	verbose := fs.Bool("v", false, "verbose")
	noReplay := fs.Bool("noreplay", false, "skip native replay (debugging only: exit 2 on violations)")
	noEvidence := fs.Bool("noevidence", false, "do not write the evidence file")
	timeout := fs.Int("timeout", 0, "per-query solver timeout in ms")
	maxPaths := fs.Int("maxpaths", 0, "path budget")
	noGuess := fs.Bool("noguess", false, "disable feasibility-by-witness guessing")
	fix := fs.String("fix", "", "debugging: name=k,name=k forces named choices (run is then not exhaustive)")
	fs.Parse(args)
	if *prop == "" {
		fmt.Fprintln(os.Stderr, "-prop required")
		return 2
	}
	t0 := time.Now()
	runTier = *tier
	cfg := &Config{Solver: *solver, TimeoutMs: 10000, Fuel: 20_000_000, MaxDecisions: 400, MaxIndexSplit: 64,
		MaxPaths: 500000, Workers: runtime.NumCPU(), Thorough: *tier == "thorough", Verbose: *verbose, Known: loadKnown()}
	if cfg.Thorough {
		cfg.TimeoutMs = 120000
		cfg.MaxPaths = 3000000
		cfg.Fuel = 100_000_000
	}
	if *timeout > 0 {
		cfg.TimeoutMs = *timeout
	}
	if *maxPaths > 0 {
		cfg.MaxPaths = *maxPaths
	}
	if *workers > 0 {
		cfg.Workers = *workers
	}
	if *fix != "" {
		cfg.Fix = map[string]int{}
		for _, kv := range strings.Split(*fix, ",") {
			p := strings.SplitN(kv, "=", 2)
			k, _ := strconv.Atoi(p[1])
			cfg.Fix[p[0]] = k
		}
	}
	seed, _ := strconv.Atoi(os.Getenv("VERIF_SEED"))
	cfg.Seed = seed
	cfg.GuessTries = 300
	cfg.NoGuess = *noGuess

	prog, _, err := loadProgram(nil)
	if err != nil {
		fmt.Fprintln(os.Stderr, "load:", err)
		fmt.Printf("INCONCLUSIVE property=%s reason=load-failed\n", *prop)
		return 2
	}
	tLoad := time.Since(t0)
	var re *regexp.Regexp
	if *filter != "" {
		re = regexp.MustCompile(*filter)
	}
	hs := findHarnesses(prog, *prop, re)
	if len(hs) == 0 {
		fmt.Printf("INCONCLUSIVE property=%s reason=no-harness\n", *prop)
		return 2
	}
	if cfg.Workers > 1 && len(hs) == 1 && false {
		cfg.Workers = 1
	}
	results, stats := explore(prog, hs, cfg)
	tExplore := time.Since(t0) - tLoad

	// report
	outDir := filepath.Join(verifDir, "out", *prop)
	os.RemoveAll(outDir)
	os.MkdirAll(outDir, 0o755)
	exit := 0
	var inconclusive []string
	nViol, nKnown, nReplayed := 0, 0, 0
	var names []string
	for n := range results {
		names = append(names, n)
	}
	sort.Strings(names)
	pkgOf := map[string]*ssa.Function{}
	for _, h := range hs {
		pkgOf[h.Name()] = h
	}
	knownPrinted := map[string]bool{}
	var vioLines []string
	for _, n := range names {
		r := results[n]
		if *verbose || len(r.Aborts) > 0 || len(r.EngineErrors) > 0 || len(r.Inconclusive) > 0 {
			fmt.Printf("harness %s: paths=%d ended=%v aborts=%v inconclusive=%v feasUnknown=%d maxsteps=%d reached=%v\n", n, r.Paths, r.Ended, r.Aborts, r.Inconclusive, r.FeasUnknown, r.MaxSteps, r.Reached)
		}
		for _, e := range r.EngineErrors {
			fmt.Printf("  ENGINE ERROR: %s\n", e)
			inconclusive = append(inconclusive, n+": engine error")
		}
		for why, c := range r.Aborts {
			inconclusive = append(inconclusive, fmt.Sprintf("%s: %d paths aborted: %s", n, c, why))
		}
		for why := range r.Inconclusive {
			inconclusive = append(inconclusive, n+": "+why)
		}
		if r.Ended["done"] == 0 {
			inconclusive = append(inconclusive, n+": vacuous (no path ran to completion)")
		}
		for i, v := range sortedViolations(r) {
			v.W.Property = *prop
			v.W.Package = pkgOf[n].Pkg.Pkg.Path()
			wpath := filepath.Join(outDir, fmt.Sprintf("%s.%s.%d.witness.json", n, sanitize(v.Assert), i))
			writeJSON(wpath, v.W)
			status := "skipped"
			if !*noReplay {
				status = replayWitness(wpath, v.W, prog)
				nReplayed++
				// the first failing path need not be one whose failure shows
				// natively (a cost measured in allocations, a stub with an
				// arbitrary value): other paths that fail the same assertion
				// are tried before the counterexample is called unconfirmed
				for k := 0; status != "reproduced" && k < len(v.Alts) && k < 6; k++ {
					alt := v.Alts[k]
					alt.Property, alt.Package = *prop, v.W.Package
					writeJSON(wpath, alt)
					st := replayWitness(wpath, alt, prog)
					nReplayed++
					if st == "reproduced" {
						v.W, status = alt, st
					}
				}
				if status != "reproduced" {
					writeJSON(wpath, v.W)
				}
			}
			v.W.Replay = status
			writeJSON(wpath, v.W)
			what := fmt.Sprintf("harness=%s assert=%s inputs=%s choices=%s (%d paths)", n, v.Assert, inputsBrief(v.W), choicesBrief(v.W), v.Count)
			switch {
			case status != "reproduced" && !*noReplay:
				inconclusive = append(inconclusive, fmt.Sprintf("%s: counterexample for %s not reproduced natively (%s): %s", n, v.Assert, status, wpath))
				fmt.Printf("UNCONFIRMED property=%s %s replay=%s status=%s\n", *prop, what, wpath, status)
			case v.Known != "":
				nKnown++
				if !knownPrinted[v.Known] {
					knownPrinted[v.Known] = true
					fmt.Printf("KNOWN-FINDING: property=%s %s [%s] %s\n", *prop, v.Known, knownWhat(cfg.Known, v.Known), what)
				}
			default:
				nViol++
				vioLines = append(vioLines, fmt.Sprintf("VIOLATION property=%s replay=%s %s", *prop, wpath, what))
				exit = 1
			}
		}
	}
	for _, l := range vioLines {
		fmt.Println(l)
	}
	if len(inconclusive) > 0 && exit == 0 {
		exit = 2
	}
	for _, s := range inconclusive {
		fmt.Printf("INCONCLUSIVE property=%s reason=%s\n", *prop, s)
	}
	wall := time.Since(t0)
	if !*noEvidence && os.Getenv("SYMGO_NOEVIDENCE") == "" {
		writeEvidence(*prop, *tier, seed, cfg, hs, results, stats, nViol, nKnown, nReplayed, inconclusive, wall, tLoad, tExplore)
	}
	totalPaths := 0
	for _, r := range results {
		totalPaths += r.Paths
	}
	fmt.Printf("property=%s tier=%s harnesses=%d paths=%d queries=%d (sat %d unsat %d unknown %d) guessed=%d/%d cached=%d solver=%.1fs load=%.1fs explore=%.1fs wall=%.1fs violations=%d known=%d exit=%d\n",
		*prop, *tier, len(hs), totalPaths, stats.Queries, stats.Sat, stats.Unsat, stats.Unknown, stats.GuessHits, stats.GuessHits+stats.GuessMiss, stats.ModelHits, stats.SolverDur.Seconds(), tLoad.Seconds(), tExplore.Seconds(), wall.Seconds(), nViol, nKnown, exit)
	return exit
}

func knownWhat(ks []*KnownFinding, id string) string {
	for _, k := range ks {
		if k.ID == id {
			return k.What
		}
	}
	return ""
}

func envOr(k, d string) string {
	if v := os.Getenv(k); v != "" {
		return v
	}
	return d
}

func sanitize(s string) string {
	return regexp.MustCompile(`[^A-Za-z0-9_.-]+`).ReplaceAllString(s, "_")
}

func inputsBrief(w *Witness) string {
	var ks []string
	for k := range w.Inputs {
		ks = append(ks, k)
	}
	sort.Strings(ks)
	var sb strings.Builder
	sb.WriteString("{")
	for i, k := range ks {
		if i > 0 {
			sb.WriteString(",")
		}
		if i >= 8 {
			sb.WriteString("…")
			break
		}
		sb.WriteString(k + "=" + w.Inputs[k].Pretty)
	}
	sb.WriteString("}")
	return sb.String()
}
func choicesBrief(w *Witness) string {
	var sb strings.Builder
	sb.WriteString("[")
	for i, c := range w.Choices {
		if i > 0 {
			sb.WriteString(",")
		}
		sb.WriteString(fmt.Sprintf("%s=%d", c.Name, c.K))
	}
	sb.WriteString("]")
	return sb.String()
}

func writeJSON(path string, v interface{}) {
	b, _ := json.MarshalIndent(v, "", " ")
	os.WriteFile(path, b, 0o644)
}

// ---- native replay

func replayWitness(wpath string, w *Witness, prog *ssa.Program) string {
	ov, _, err := overlayFiles()
	if err != nil {
		return "error: " + err.Error()
	}
	pkgPath := w.Package
	rel := strings.TrimPrefix(strings.TrimPrefix(pkgPath, repoPrefix), "/")
	// harness list of that package
	var pkg *ssa.Package
	for _, p := range prog.AllPackages() {
		if p.Pkg.Path() == pkgPath {
			pkg = p
		}
	}
	if pkg == nil {
		return "error: package not loaded"
	}
	var names []string
	for name, m := range pkg.Members {
		if fn, ok := m.(*ssa.Function); ok && harnessRe.MatchString(name) && fn.Signature.Params().Len() == 0 {
			names = append(names, name)
		}
	}
	sort.Strings(names)
	tmp, err := os.MkdirTemp(filepath.Join(verifDir, "out"), "replay")
	if err != nil {
		return "error: " + err.Error()
	}
	defer os.RemoveAll(tmp)
	var sb strings.Builder
	fmt.Fprintf(&sb, "//go:build verif\n\npackage %s\n\nimport (\n\t\"os\"\n\t\"testing\"\n\n\t\"%s\"\n)\n\n", pkg.Pkg.Name(), svPath)
	sb.WriteString("func TestZZReplay(t *testing.T) {\n\tsv.ReplayMain(os.Getenv(\"SV_WITNESS\"), map[string]func(){\n")
	for _, n := range names {
		fmt.Fprintf(&sb, "\t\t%q: %s,\n", n, n)
	}
	sb.WriteString("\t})\n}\n")
	testFile := filepath.Join(tmp, "replay_test.go")
	os.WriteFile(testFile, []byte(sb.String()), 0o644)
	repl := map[string]string{}
	for target, src := range ov {
		repl[target] = src
	}
	repl[filepath.Join(repoDir, rel, "zz_verif_replay_test.go")] = testFile
	ovJSON := filepath.Join(tmp, "overlay.json")
	writeJSON(ovJSON, map[string]interface{}{"Replace": repl})
	dir := "./" + rel
	if rel == "" {
		dir = "."
	}
	// build the test binary (the package directory may exist only in the
	// overlay, so "go test" could not chdir into it), then run it
	bin := filepath.Join(tmp, "replay.test")
	build := exec.Command("go", "test", "-c", "-tags", "verif", "-overlay", ovJSON, "-vet=off", "-o", bin, dir)
	build.Dir = repoDir
	build.Env = goEnv()
	if bout, err := build.CombinedOutput(); err != nil {
		os.WriteFile(strings.TrimSuffix(wpath, ".witness.json")+".replay.log", bout, 0o644)
		return "error: build: " + truncate(string(bout), 300)
	}
	cmd := exec.Command(bin, "-test.run", "^TestZZReplay$", "-test.v", "-test.count=1")
	cmd.Dir = tmp
	cmd.Env = append(goEnv(), "SV_WITNESS="+wpath, "VERIF_TIER="+runTier)
	done := make(chan struct{})
	var out []byte
	go func() {
		out, _ = cmd.CombinedOutput()
		close(done)
	}()
	select {
	case <-done:
	case <-time.After(replayTimeout(w)):
		cmd.Process.Kill()
		if witnessHasEvent(w, "fatal: deadlock") {
			// the engine saw the code block on a lock that is never released;
			// natively that is a run that does not return
			return "reproduced"
		}
		return "timeout"
	}
	text := string(out)
	os.WriteFile(strings.TrimSuffix(wpath, ".witness.json")+".replay.log", out, 0o644)
	switch {
	case strings.Contains(text, "SVFAIL "+w.Assert+"\n"):
		return "reproduced"
	case w.Assert == "panic-escaped" && (strings.Contains(text, "SVPANIC") || strings.Contains(text, "panic:") || strings.Contains(text, "fatal error")):
		return "reproduced"
	case strings.Contains(text, "fatal error") || strings.Contains(text, "SIGSEGV") || strings.Contains(text, "unexpected signal"):
		return "reproduced" // process died: memory-unsafety made visible
	case witnessHasCast(w) && strings.Contains(text, "SVFAIL "):
		// the engine saw a mis-typed variant access (silent memory confusion
		// natively); its native symptom is a later oracle failing
		return "reproduced"
	case strings.Contains(text, "SVASSUME"):
		return "not-reproduced (assumption false natively)"
	case strings.Contains(text, "SVDONE"):
		return "not-reproduced"
	}
	return "error: " + truncate(text, 300)
}

func witnessHasEvent(w *Witness, prefix string) bool {
	for _, e := range w.Events {
		if strings.HasPrefix(e, prefix) {
			return true
		}
	}
	return false
}

func replayTimeout(w *Witness) time.Duration {
	if witnessHasEvent(w, "fatal: deadlock") {
		return 45 * time.Second
	}
	return 5 * time.Minute
}

func witnessHasCast(w *Witness) bool {
	for _, e := range w.Events {
		if strings.HasPrefix(e, "cast:") || strings.Contains(e, "outcome: cast") {
			return true
		}
	}
	return false
}

func cmdReplay(args []string) int {
	fs := flag.NewFlagSet("replay", flag.ExitOnError)
	fs.Parse(args)
	if fs.NArg() < 1 {
		fmt.Fprintln(os.Stderr, "usage: symgo replay <witness.json>")
		return 2
	}
	b, err := os.ReadFile(fs.Arg(0))
	if err != nil {
		fmt.Fprintln(os.Stderr, err)
		return 2
	}
	var w Witness
	if err := json.Unmarshal(b, &w); err != nil {
		fmt.Fprintln(os.Stderr, err)
		return 2
	}
	prog, _, err := loadProgram(nil)
	if err != nil {
		fmt.Fprintln(os.Stderr, err)
		return 2
	}
	st := replayWitness(fs.Arg(0), &w, prog)
	fmt.Printf("replay %s: %s\n", fs.Arg(0), st)
	if st == "reproduced" {
		fmt.Printf("VIOLATION property=%s replay=%s\n", w.Property, fs.Arg(0))
		return 1
	}
	return 0
}
