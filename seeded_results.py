#!/usr/bin/env python3
"""Regenerates seeded/RESULTS.md from seeded/*/meta.json (written by seed_eval.py run)."""
import json, glob, os, re
rows = []
for d in sorted(glob.glob('/verif/seeded/C*_m*')):
    m = json.load(open(d + '/meta.json'))
    det = []
    for c, r in sorted(m.get('checks', {}).items()):
        if r.get('detected'):
            a = ''
            for l in r.get('lines', []):
                mm = re.search(r'harness=(\S+) assert=(\S+)', l)
                if l.startswith('VIOLATION') and mm:
                    a = f'{mm.group(1)} / {mm.group(2)}'
                    break
            det.append(f'**{c}** ({a})' if a else f'**{c}**')
        elif r.get('exit') == 2:
            det.append(f'{c}: inconclusive')
        else:
            det.append(f'{c}: not detected')
    summ = (m.get('summary') or '').replace('\n', ' ').replace('|', '\\|')
    first = re.split(r'(?<=[.;:]) ', summ)[0][:230]
    fc = ''
    for c, r in sorted(m.get('first_contact', {}).items()):
        fc = 'detected' if r.get('detected') else ('inconclusive' if r.get('exit') == 2 else 'not detected')
    rows.append((m['id'], m['breaks_property'], ', '.join(m.get('files') or []), first, '; '.join(det) or 'not run', fc or 'same'))
out = ['# Seeded changes and the checks that catch them', '',
       'Each change was written by a fresh sub-agent given only the property text and a scratch worktree, confirmed here in a',
       'scratch worktree (unedited suite passes with it; its demonstration fails with it and passes without it) and then applied',
       'to /repo, checked with the registered quick command, and undone (`seed_eval.py run <id>`). `meta.json` in each directory has',
       'the full description, what the change needs in order to manifest, and the output lines of the check. For the changes of the fourth round (m7, m8) the', 'outcome of the first run - with the checks as they were before that round - is kept in `first_contact`: "same" means the first run is the final one.', '',
       '| id | breaks | files | change (first sentence) | quick check (final) | first run, before strengthening (round 4 only) |', '|---|---|---|---|---|---|']
for r in rows:
    out.append('| ' + ' | '.join(r) + ' |')
n = len(rows)
ndet = sum(1 for r in rows if '**' in r[4])
out += ['', f'{ndet} of {n} detected by the property\'s own quick check (exit 1, counterexample replayed natively).']
open('/verif/seeded/RESULTS.md', 'w').write('\n'.join(out) + '\n')
print(f'{ndet}/{n}')
