#!/usr/bin/env python3
"""Seeded changes (DESIGN §8).

  seed_eval.py confirm <prop> <i> [srcdir [store-as-index]]
      confirms a sub-agent's change in a scratch worktree of /repo (the unedited suite passes with
      it, the demonstration fails with it and passes without it) and, only then, stores it as
      /verif/seeded/<prop>_m<i>/{patch.diff, demo_test.go, meta.json}. srcdir defaults to
      /tmp/seed/out_<prop> and holds m<i>.diff, m<i>_demo_test.go, m<i>.json.

  seed_eval.py run <id> [checks...]
      applies /verif/seeded/<id>/patch.diff to /repo, runs the given checks (default: the
      property's own, quick tier), undoes the change, and records the outcome in meta.json.
"""
import subprocess, sys, os, shutil, json

env = dict(os.environ, GOFLAGS='-mod=mod', GOPROXY='off', GOSUMDB='off', SYMGO_NOEVIDENCE='1')
SEEDED = '/verif/seeded'


def sh(cmd, cwd=None, timeout=3600):
    r = subprocess.run(cmd, shell=True, cwd=cwd, env=env, capture_output=True, text=True, timeout=timeout)
    return r.returncode, (r.stdout + r.stderr)


def confirm(prop, i, src=None, as_i=None):
    src = src or f'/tmp/seed/out_{prop}'
    diff, demo, meta = f'{src}/m{i}.diff', f'{src}/m{i}_demo_test.go', f'{src}/m{i}.json'
    m = json.load(open(meta))
    pkgdir, runre = m.get('pkgdir', 'test'), m.get('run', 'TestSeedDemo')
    wt = f'/tmp/seed/eval_{prop}_{i}'
    res = {}
    sh(f'git -C /repo worktree remove --force {wt}')
    sh(f'git -C /repo worktree add -q --detach {wt} HEAD')
    try:
        demo_dst = os.path.join(wt, pkgdir, f'zz_seed_m{i}_demo_test.go')
        shutil.copy(demo, demo_dst)
        rc0, o0 = sh(f'go test -vet=off -count=1 -run "{runre}" ./{pkgdir}', cwd=wt)
        res['demo_passes_without'] = rc0 == 0 and 'no tests to run' not in o0
        os.remove(demo_dst)
        rc, o = sh(f'git apply {diff}', cwd=wt)
        res['applies'] = rc == 0
        # touches only non-test sources
        rc, names = sh('git status --short', cwd=wt)
        res['touches_no_test_file'] = not any(l.strip().endswith('_test.go') for l in names.splitlines())
        rc1, o1 = sh('go build ./... && go test -vet=off -count=1 ./...', cwd=wt)
        res['suite_passes_with'] = rc1 == 0
        if rc1 != 0:
            res['suite_excerpt'] = o1[-600:]
        shutil.copy(demo, demo_dst)
        rc2, o2 = sh(f'go test -vet=off -count=1 -run "{runre}" ./{pkgdir}', cwd=wt)
        res['demo_fails_with'] = rc2 != 0
        res['demo_fail_excerpt'] = '\n'.join(
            [l for l in o2.splitlines() if 'FAIL' in l or 'rror' in l or 'expect' in l or 'got' in l or 'panic' in l][:8])
    finally:
        sh(f'git -C /repo worktree remove --force {wt}')
    ok = all(res.get(k) for k in ['demo_passes_without', 'applies', 'touches_no_test_file', 'suite_passes_with', 'demo_fails_with'])
    res['confirmed'] = ok
    if ok:
        as_i = as_i or i
        d = f'{SEEDED}/{prop}_m{as_i}'
        os.makedirs(d, exist_ok=True)
        shutil.copy(diff, f'{d}/patch.diff')
        shutil.copy(demo, f'{d}/demo_test.go')
        out = {
            'id': f'{prop}_m{as_i}', 'breaks_property': prop,
            'summary': m.get('summary'), 'needs_to_manifest': m.get('needs'), 'files': m.get('files'),
            'demo': {'file': 'demo_test.go', 'copy_to': f'{pkgdir}/zz_seed_demo_test.go', 'run': f'go test -vet=off -count=1 -run "{runre}" ./{pkgdir}'},
            'confirmed_in_scratch_worktree': {
                'ran': ['go test -run demo on clean HEAD (pass)', 'git apply patch.diff', 'go build ./... && go test -vet=off -count=1 ./... (pass, unedited suite)', 'go test -run demo with the change (fail)'],
                **res},
            'origin': 'written by a fresh sub-agent that was given only the property text and its own scratch worktree',
            'checks': {},
        }
        json.dump(out, open(f'{d}/meta.json', 'w'), indent=1, ensure_ascii=False)
    print(json.dumps(res, indent=1, ensure_ascii=False))
    return ok


def run(sid, checks):
    d = f'{SEEDED}/{sid}'
    meta = json.load(open(f'{d}/meta.json'))
    checks = checks or [meta['breaks_property']]
    rc, o = sh('git -C /repo status --short')
    if o.strip():
        print('refusing: /repo is not clean:\n' + o)
        sys.exit(3)
    rc, o = sh(f'git -C /repo apply {d}/patch.diff')
    if rc != 0:
        print('patch does not apply:', o)
        sys.exit(3)
    try:
        for c in checks:
            rc, o = sh(f'./check.sh {c} quick', cwd='/verif', timeout=7200)
            lines = [l for l in o.splitlines() if l.startswith(('VIOLATION', 'INCONCLUSIVE', 'UNCONFIRMED', 'KNOWN-FINDING'))]
            if c in meta['checks'] and c not in meta.setdefault('first_contact', {}):
                # the first run against this change is kept: it shows what the checks caught before they were strengthened for it
                meta['first_contact'][c] = meta['checks'][c]
            meta['checks'][c] = {'tier': 'quick', 'exit': rc, 'detected': rc == 1,
                                 'lines': [l[:400] for l in lines[:6]], 'summary': o.strip().splitlines()[-1][:300] if o.strip() else ''}
            print(sid, c, 'exit', rc, *[l[:300] for l in lines[:3]], sep='\n  ')
    finally:
        sh('git -C /repo checkout -- . && git -C /repo clean -fdq')
        rc, o = sh('git -C /repo status --short')
        meta['repo_clean_after'] = o.strip() == ''
    json.dump(meta, open(f'{d}/meta.json', 'w'), indent=1, ensure_ascii=False)


if __name__ == '__main__':
    if sys.argv[1] == 'confirm':
        sys.exit(0 if confirm(*sys.argv[2:6]) else 1)
    elif sys.argv[1] == 'run':
        run(sys.argv[2], sys.argv[3:])
