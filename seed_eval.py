#!/usr/bin/env python3
"""Confirms a seeded mutant in a scratch worktree (suite passes with it, demo fails with it and
passes without), then applies it to /repo, runs the given checks, and undoes it.
usage: seed_eval.py <prop> <mutant dir> <i> <pkgdir for demo> <test -run regex> [checks...]"""
import subprocess, sys, os, shutil, json, re
prop, mdir, i, pkgdir, runre = sys.argv[1:6]
checks = sys.argv[6:] or [prop]
env = dict(os.environ, GOFLAGS='-mod=mod', GOPROXY='off', GOSUMDB='off')
diff = f'{mdir}/m{i}.diff'; demo = f'{mdir}/m{i}_demo_test.go'
wt = f'/tmp/wt/eval_{prop}_{i}'
def sh(cmd, cwd=None, timeout=1800):
    r = subprocess.run(cmd, shell=True, cwd=cwd, env=env, capture_output=True, text=True, timeout=timeout)
    return r.returncode, (r.stdout + r.stderr)
res = {'property': prop, 'mutant': f'm{i}'}
sh(f'git -C /repo worktree remove --force {wt}')
rc, out = sh(f'git -C /repo worktree add -q --detach {wt} HEAD')
try:
    demo_dst = os.path.join(wt, pkgdir, f'zz_seed_m{i}_demo_test.go')
    shutil.copy(demo, demo_dst)
    rc0, o0 = sh(f'go test -vet=off -count=1 -run "{runre}" ./{pkgdir}', cwd=wt)
    res['demo_passes_without'] = rc0 == 0
    os.remove(demo_dst)
    rc, o = sh(f'git apply {diff}', cwd=wt)
    res['applies'] = rc == 0
    rc1, o1 = sh('go build ./... && go test -vet=off -count=1 ./...', cwd=wt)
    res['suite_passes_with'] = rc1 == 0
    shutil.copy(demo, demo_dst)
    rc2, o2 = sh(f'go test -vet=off -count=1 -run "{runre}" ./{pkgdir}', cwd=wt)
    res['demo_fails_with'] = rc2 != 0
    res['demo_fail_excerpt'] = '\n'.join([l for l in o2.splitlines() if 'FAIL' in l or 'rror' in l or 'expect' in l or 'got' in l][:6])
finally:
    sh(f'git -C /repo worktree remove --force {wt}')
res['confirmed'] = all(res.get(k) for k in ['demo_passes_without', 'applies', 'suite_passes_with', 'demo_fails_with'])
# run the checks against /repo with the mutant applied
rc, o = sh(f'git -C /repo apply {diff}')
res['checks'] = {}
try:
    if rc == 0:
        for c in checks:
            rc, o = sh(f'./check.sh {c} quick', cwd='/verif', timeout=3600)
            lines = [l for l in o.splitlines() if l.startswith(('VIOLATION', 'INCONCLUSIVE', 'UNCONFIRMED'))]
            res['checks'][c] = {'exit': rc, 'lines': [l[:300] for l in lines[:6]]}
finally:
    sh('git -C /repo checkout -- . && git -C /repo clean -fdq -e zz_nothing', )
    rc, o = sh('git -C /repo status --short')
    res['repo_clean_after'] = o.strip() == ''
print(json.dumps(res, indent=1))
