#!/bin/sh
# builds the symbolic executor from /verif/symgo (offline; x/tools v0.29.0 from the module cache)
set -e
cd "$(dirname "$0")/symgo"
export GOFLAGS=-mod=mod GOPROXY=off GOSUMDB=off GOTOOLCHAIN=local
mkdir -p ../bin ../out ../evidence
go build -o ../bin/symgo .
