#!/bin/sh
# runs every claimed check (quick by default) and prints one summary line each
cd "$(dirname "$0")"
tier="${1:-quick}"
for p in $(python3 -c "import json;print(' '.join(c['property_id'] for c in json.load(open('MANIFEST.json'))['checks']))"); do
  out=$(./check.sh $p $tier 2>&1)
  rc=$?
  echo "$out" | grep -E "^(VIOLATION|INCONCLUSIVE|UNCONFIRMED)" | head -5
  echo "$p rc=$rc $(echo "$out" | tail -1 | cut -c1-220)"
done
