//go:build verif

package hx

import (
	"github.com/goghcrow/yae/fun"
	"github.com/goghcrow/yae/parser/ast"
	"github.com/goghcrow/yae/parser/lexer"
	"github.com/goghcrow/yae/parser/pos"
	"github.com/goghcrow/yae/types"
	"github.com/goghcrow/yae/val"
	"github.com/goghcrow/yae/zzverif/sv"
)

// ---- reference checker (rules of the property statement; uses only type
// constructors, RefTypeEq and refMatch - never types.Check/Equals/Unify)

type refEnv struct {
	vars map[string]*types.Type
	funs []*types.Type // registered function types, in registration order
	user []*types.Type // function types of the caller's own (inner) environment
}

type refReject struct{ why string }

func rej(why string) { panic(refReject{why}) }

func refVarFree(t *types.Type) bool {
	switch t.Kind {
	case types.KTyVar:
		return false
	case types.KList:
		return refVarFree(t.List().El)
	case types.KMap:
		return refVarFree(t.Map().Key) && refVarFree(t.Map().Val)
	case types.KMaybe:
		return refVarFree(t.Maybe().Elem)
	case types.KObj:
		for _, f := range t.Obj().Fields {
			if !refVarFree(f.Val) {
				return false
			}
		}
	case types.KFun:
		for _, p := range t.Fun().Param {
			if !refVarFree(p) {
				return false
			}
		}
		return refVarFree(t.Fun().Return)
	}
	return true
}

func isPrimitive(t *types.Type) bool {
	return t.Kind == types.KNum || t.Kind == types.KStr || t.Kind == types.KBool || t.Kind == types.KTime
}

func (r *refEnv) instantiate(f *types.FunTy, args []*types.Type) *types.Type {
	if len(f.Param) != len(args) {
		return nil
	}
	bind := map[string]*types.Type{}
	for i, p := range f.Param {
		if !refMatch(p, args[i], bind) {
			return nil
		}
	}
	ret := refApply(f.Return, bind, 8)
	if !refVarFree(ret) {
		return nil
	}
	return ret
}

func (r *refEnv) check(e ast.Expr) *types.Type {
	switch x := e.(type) {
	case *ast.StrExpr:
		return types.Str
	case *ast.NumExpr:
		return types.Num
	case *ast.TimeExpr:
		return types.Time
	case *ast.BoolExpr:
		return types.Bool
	case *ast.ListExpr:
		if len(x.Elems) == 0 {
			return types.List(types.Bottom)
		}
		t0 := r.check(x.Elems[0])
		for _, el := range x.Elems[1:] {
			if !RefTypeEq(t0, r.check(el)) {
				rej("heterogeneous list")
			}
		}
		return types.List(t0)
	case *ast.MapExpr:
		if len(x.Pairs) == 0 {
			return types.Map(types.Bottom, types.Bottom)
		}
		k0 := r.check(x.Pairs[0].Key)
		if !isPrimitive(k0) {
			rej("map key must be primitive")
		}
		v0 := r.check(x.Pairs[0].Val)
		for _, p := range x.Pairs[1:] {
			if !RefTypeEq(k0, r.check(p.Key)) || !RefTypeEq(v0, r.check(p.Val)) {
				rej("heterogeneous map")
			}
		}
		return types.Map(k0, v0)
	case *ast.ObjExpr:
		fs := make([]types.Field, len(x.Fields))
		for i, f := range x.Fields {
			for j := 0; j < i; j++ {
				if x.Fields[j].Name == f.Name {
					rej("duplicate field")
				}
			}
			fs[i] = types.Field{Name: f.Name, Val: r.check(f.Val)}
		}
		return types.Obj(fs)
	case *ast.IdentExpr:
		if lexer.Reserved(x.Name) {
			rej("reserved word")
		}
		t, ok := r.vars[x.Name]
		if !ok {
			rej("undefined")
		}
		return t
	case *ast.MemberExpr:
		ot := r.check(x.Obj)
		if ot.Kind != types.KObj {
			rej("member of non-object")
		}
		for _, f := range ot.Obj().Fields {
			if f.Name == x.Field.Name {
				return f.Val
			}
		}
		rej("no such field")
	case *ast.SubscriptExpr:
		vt := r.check(x.Var)
		it := r.check(x.Idx)
		switch vt.Kind {
		case types.KList:
			if it.Kind != types.KNum {
				rej("list index must be num")
			}
			return vt.List().El
		case types.KMap:
			if !RefTypeEq(it, vt.Map().Key) {
				rej("map index must have the key type")
			}
			return vt.Map().Val
		}
		rej("subscript of non-container")
	case *ast.CallExpr:
		args := make([]*types.Type, len(x.Args))
		for i, a := range x.Args {
			args[i] = r.check(a)
		}
		if id, ok := x.Callee.(*ast.IdentExpr); ok {
			// exactly matching monomorphic overload first (the caller's own
			// environment before the engine's; last registration wins)
			for _, level := range [][]*types.Type{r.user, r.funs} {
				var mono *types.Type
				for _, f := range level {
					ft := f.Fun()
					if ft.Name != id.Name || !refVarFree(f) || len(ft.Param) != len(args) {
						continue
					}
					same := true
					for i := range args {
						same = same && RefTypeEq(ft.Param[i], args[i])
					}
					if same {
						mono = ft.Return
					}
				}
				if mono != nil {
					return mono
				}
			}
			// otherwise the first registered polymorphic overload that
			// instantiates, among those of the innermost environment that
			// has any for this name and number of arguments
			for _, level := range [][]*types.Type{r.user, r.funs} {
				any := false
				for _, f := range level {
					ft := f.Fun()
					if ft.Name != id.Name || refVarFree(f) || len(ft.Param) != len(args) {
						continue
					}
					any = true
					if ret := r.instantiate(ft, args); ret != nil {
						return ret
					}
				}
				if any {
					break
				}
			}
			rej("no overload")
		}
		ct := r.check(x.Callee)
		if ct.Kind != types.KFun {
			rej("call of non-function")
		}
		if ret := r.instantiate(ct.Fun(), args); ret != nil {
			return ret
		}
		rej("arguments do not match")
	}
	rej("unknown node")
	return nil
}

func (r *refEnv) infer(e ast.Expr) (t *types.Type, why string) {
	defer func() {
		if x := recover(); x != nil {
			if rr, ok := x.(refReject); ok {
				t, why = nil, rr.why
				return
			}
			panic(x)
		}
	}()
	return r.check(e), ""
}

// ---- programs: every node kind over identifier children, well typed and
// ill typed (arity, heterogeneous elements, wrong index type, missing field,
// reserved word, optional where the payload is required ...)

var c05Progs = []string{
	"[x, y]", "[x, y, x]", "[x, x, y]", "[k: x, k2: y]", "[x: y]", "[x: y, y: x]", "{f: x, g: y}", "{f: x, f: y}",
	"x.a", "x.b", "x.zz", "x[i]", "x[k]", "x[y]", "xs[i]", "xs[k]", "m[k]", "m[i]",
	"if(c, x, y)", "if(x, x, y)", "c ? x : y", "get(o, x)", "get(o, y)", "get(xs, i, x)", "get(xs, k, x)", "get(m, k, y)", "get(x, y)",
	"x + y", "x == y", "x < y", "-x", "!x", "len(x)", "len(x, y)", "string(x)", "union([x], [y])", "max(x, y)", "max([x])",
	"isset(m, k)", "isset(m, x)", "g(x)", "g(x, y)", "g(y)", "h(x)", "h(x, y)", "nofun(x)", "xs[0](x)", "fs[0](x)", "fs[0](x, y)", "x(y)",
	// one variable (one type object) in two positions of a literal's type
	"[{f: x, g: x}, {f: x, g: y}]", "[{f: x, g: x}, {f: y, g: x}]", "[{f: x, g: x}, {f: y, g: y}]", "[[k: x, k2: x], [k: x, k2: y]]",
	"[{f: x, g: x}, {g: x, f: x}][0].g", "{f: [x, x], g: [x]}", "if(c, {f: x, g: x}, {f: x, g: y})", "[{f: xs, g: xs}, {f: [x], g: [y]}]",
	// keys whose type comes from an element of a container (the element type of
	// an empty literal is ⊥, which is not a primitive key type)
	"[x[i]: y]", "[x[i]: y, x[i]: y]", "[m[k]: x]", "[[][i]: x]", "[[:][k]: x]", "[if(c, x[i], x[i]): y]", "[get(x, i, y): c]", "[[x][i]: y]",
	// one variable (one type object) on both sides of a polymorphic overload
	"x == x", "x != x", "union(x, x)", "{f: x}.f == x", "if(c, x, y) == if(c, x, y)", "max(x, x)", "get(xs, i, x) == x",
	// empty literals next to containers of other element types
	"[[], [x]]", "[[x], []]", "if(c, [x], [])", "if(c, [], [x])", "[[:], [k: x]]", "get(xs, i, []) == []", "if(c, [[], [o]][1][0], x)",
	// a polymorphic overload with a concrete container parameter next to a variable: an empty literal is not a list[num]
	"t2([], x)", "t2([[]][0], x)", "t2(xs, x)", "t2([1], x)", "t2([x], y)", "t3([:], x)", "t3([\"k\": 1], x)",
	// a type variable that occurs only as a map key (t4), or only in the result (t5)
	"t4([\"k\": 1])", "t4([1: 1])", "t4(m)", "t4([k: x])", "t5(1)", "t5(i)[k]",
	// a result type that mentions the variable in one field of several
	"t6(x)", "t6(x).val", "t6(x).tag", "[t6(x), {val: y, tag: k}]", "t6(t6(i)).val.val",
	"type", "let + 1", "[x][0].a", "{f: x}.f", "{f: x}.g", "get(mo, k, o)", "get(o, o)", "o + 1", "o.a", "o[0]", "len(o)", "o == o",
}

// H05_step: the checker accepts exactly what the typing rules accept and
// infers the type they assign, for every registration order of the extra
// overloads.
func H05_step() {
	src := c05Progs[sv.Choice("prog", len(c05Progs))]
	n := CatalogueSize()
	kx := sv.Choice("Tx", n)
	tx := Catalogue(kx)
	ty := tx
	if uses(src, "y") {
		switch sv.Choice("y-type", 2) {
		case 0:
			ty = Permuted(tx, "ty")
		default:
			ty = Catalogue((kx + 1) % n)
		}
	}
	// extra overloads: g mono on Tx's type (field-permuted), g poly, h poly
	// (list[a] -> a and a -> a); the registration order is a selector
	va, vb := types.TyVar("a"), types.TyVar("b")
	extras := []*types.Type{
		types.Fun("g", []*types.Type{Permuted(tx, "gmono")}, types.Str),
		types.Fun("g", []*types.Type{va}, types.List(va)),
		types.Fun("h", []*types.Type{types.List(vb)}, vb),
		types.Fun("h", []*types.Type{vb}, types.Bool),
	}
	// orders 4 and 5 split the extras between the engine's environment and
	// the caller's own: 4 keeps the monomorphic g in the engine and puts the
	// generic ones in front of it, 5 the other way round
	order := sv.Choice("registration-order", 6)
	perm := [][]int{{0, 1, 2, 3}, {1, 0, 3, 2}, {3, 2, 1, 0}, {2, 3, 0, 1}, {0, 1, 2, 3}, {0, 1, 2, 3}}[order]
	inUser := func(k int) bool { return (order == 4 && k != 0) || (order == 5 && k == 0) }

	e := NewBareEngine()
	r := &refEnv{vars: map[string]*types.Type{}}
	e.Ops = append(e.Ops, NewEngine().Ops...)
	for _, f := range fun.BuiltIn() {
		e.Register(f)
		r.funs = append(r.funs, f.Type)
	}
	for _, k := range perm {
		ft := extras[k]
		if inUser(k) {
			e.UserFuns = append(e.UserFuns, ft)
			r.user = append(r.user, ft)
			continue
		}
		e.Register(val.Fun(ft, func(args ...*val.Val) *val.Val { return args[0] }))
		r.funs = append(r.funs, ft)
	}
	vc := types.TyVar("c")
	for _, ft := range []*types.Type{
		types.Fun("t2", []*types.Type{types.List(types.Num), vc}, vc),
		types.Fun("t3", []*types.Type{types.Map(types.Str, types.Num), vc}, vc),
		types.Fun("t4", []*types.Type{types.Map(vc, types.Num)}, types.Num),
		types.Fun("t5", []*types.Type{types.Num}, types.Map(vc, types.Num)),
		types.Fun("t6", []*types.Type{vc}, types.Obj([]types.Field{{Name: "val", Val: vc}, {Name: "tag", Val: types.Str}})),
	} {
		e.Register(val.Fun(ft, func(args ...*val.Val) *val.Val { return args[len(args)-1] }))
		r.funs = append(r.funs, ft)
	}
	fobj := types.Fun("f", []*types.Type{tx}, tx)
	tys := map[string]*types.Type{"x": tx, "y": ty, "i": types.Num, "c": types.Bool, "k": types.Str, "k2": types.Str,
		"xs": types.List(tx), "o": types.Maybe(tx), "m": types.Map(types.Str, ty), "mo": types.Map(types.Str, types.Maybe(tx)), "fs": types.List(fobj)}
	names := []string{"x", "y", "i", "c", "k", "k2", "xs", "o", "m", "mo", "fs"}
	for _, nm := range names {
		r.vars[nm] = tys[nm]
	}

	var parsed ast.Expr
	pcls := sv.Outcome(func() { parsed = e.Parse(src) })
	sv.Assert("parses", pcls == "ok")
	var got *types.Type
	var desugared ast.Expr
	cls := sv.Outcome(func() { desugared, got = e.CheckAST(parsed, tys, names) })
	_ = desugared
	// the reference works on an independently desugared copy
	want, why := r.infer(refDesugar(parsed))
	if want != nil && hasBottomArg(want) {
		// ⊥ against a non-variable pattern position is not dictated by the rules
		sv.Reach("silent-bottom")
		return
	}
	if want == nil {
		sv.Reach("ill-typed")
		if cls == "ok" {
			sv.Logf("accepted although: %s (%s : %s)", why, src, got.String())
		}
		sv.Assert("ill-typed-program-rejected-at-compile-time", cls != "ok")
		sv.Assert("rejection-is-a-type-error-not-a-fault", cls == "ok" || hasPrefix(cls, "assert:"))
	} else {
		sv.Reach("well-typed")
		if cls != "ok" {
			sv.Logf("rejected (%s) although well typed: %s : %s", cls, src, want.String())
		}
		sv.Assert("well-typed-program-accepted", cls == "ok")
		if cls == "ok" {
			sv.Assert("inferred-type-is-the-one-the-rules-assign", RefTypeEq(got, want))
		}
	}
}

func hasBottomArg(t *types.Type) bool { return false }

// refDesugar: operators, ?:, method calls and parentheses as the calls they
// stand for (the reference's own reading of the sugar).
func refDesugar(e ast.Expr) ast.Expr {
	switch x := e.(type) {
	case *ast.GroupExpr:
		return refDesugar(x.SubExpr)
	// the debug column of a term is the column of its own token: the operator
	// for operator sugar, what the parser recorded ('(' '.' '[') otherwise
	case *ast.UnaryExpr:
		return ast.Call(ast.Var(x.Name, x.IdentExpr.Pos), []ast.Expr{refDesugar(x.LHS)}, pos.DBGCol(x.IdentExpr.Pos.Col), x.Pos)
	case *ast.BinaryExpr:
		return ast.Call(ast.Var(x.Name, x.IdentExpr.Pos), []ast.Expr{refDesugar(x.LHS), refDesugar(x.RHS)}, pos.DBGCol(x.IdentExpr.Pos.Col), x.Pos)
	case *ast.TenaryExpr:
		return ast.Call(ast.Var("if", x.IdentExpr.Pos), []ast.Expr{refDesugar(x.Left), refDesugar(x.Mid), refDesugar(x.Right)}, pos.DBGCol(x.IdentExpr.Pos.Col), x.Pos)
	case *ast.ListExpr:
		out := make([]ast.Expr, len(x.Elems))
		for i, el := range x.Elems {
			out[i] = refDesugar(el)
		}
		return ast.List(out, x.Pos)
	case *ast.MapExpr:
		out := make([]ast.Pair, len(x.Pairs))
		for i, p := range x.Pairs {
			out[i] = ast.Pair{Key: refDesugar(p.Key), Val: refDesugar(p.Val)}
		}
		return ast.Map(out, x.Pos)
	case *ast.ObjExpr:
		out := make([]ast.Field, len(x.Fields))
		for i, f := range x.Fields {
			out[i] = ast.Field{Name: f.Name, Val: refDesugar(f.Val)}
		}
		return ast.Obj(out, x.Pos)
	case *ast.CallExpr:
		args := make([]ast.Expr, 0, len(x.Args)+1)
		if m, ok := x.Callee.(*ast.MemberExpr); ok {
			args = append(args, refDesugar(m.Obj))
			for _, a := range x.Args {
				args = append(args, refDesugar(a))
			}
			return ast.Call(ast.Var(m.Field.Name, m.Field.Pos), args, x.DBGCol, x.Pos)
		}
		for _, a := range x.Args {
			args = append(args, refDesugar(a))
		}
		return ast.Call(refDesugar(x.Callee), args, x.DBGCol, x.Pos)
	case *ast.SubscriptExpr:
		return ast.Subscript(refDesugar(x.Var), refDesugar(x.Idx), x.DBGCol, x.Pos)
	case *ast.MemberExpr:
		return ast.Member(refDesugar(x.Obj), x.Field, x.DBGCol, x.Pos)
	}
	return e
}
