//go:build verif

// Package hx holds what the harnesses share: the four back ends, a small
// engine facade (lexer → parser → desugar → checker → compiler, as
// facade.go wires them), the type catalogue, arbitrary well-typed values and
// the independent reference predicates (refTypeEq, refWellTyped, refSameVal).
package hx

import (
	"time"

	"github.com/goghcrow/yae/closure"
	"github.com/goghcrow/yae/compiler"
	"github.com/goghcrow/yae/fun"
	"github.com/goghcrow/yae/interp"
	"github.com/goghcrow/yae/parser"
	"github.com/goghcrow/yae/parser/ast"
	"github.com/goghcrow/yae/parser/lexer"
	"github.com/goghcrow/yae/parser/oper"
	"github.com/goghcrow/yae/trans"
	"github.com/goghcrow/yae/types"
	"github.com/goghcrow/yae/val"
	"github.com/goghcrow/yae/vm"
	"github.com/goghcrow/yae/zzverif/sv"
)

// ---- back ends

const NBackends = 4

var BackendNames = [NBackends]string{"vm-switch", "vm-callthread", "closure", "interp"}

func Backend(i int) compiler.Compiler {
	switch i {
	case 0:
		return vm.Compile
	case 1:
		return vm.ZZCompileCallThreaded
	case 2:
		return closure.Compile
	default:
		return interp.Interp
	}
}

// ---- engine facade (mirrors facade.go: Parse / CompileExpr)

type Engine struct {
	TyEnv *types.Env
	Rt    *val.Env
	Ops   []oper.Operator
	// UserFuns are function types registered in the caller's own (inner)
	// typing environment, the one CheckAST chains in front of TyEnv
	UserFuns []*types.Type
}

func NewEngine() *Engine {
	e := &Engine{TyEnv: types.NewEnv(), Rt: val.NewEnv()}
	e.Ops = append(e.Ops, oper.BuiltIn()...)
	e.Register(fun.BuiltIn()...)
	return e
}

func NewBareEngine() *Engine {
	return &Engine{TyEnv: types.NewEnv(), Rt: val.NewEnv()}
}

func (e *Engine) Register(vs ...*val.Val) {
	for _, v := range vs {
		e.TyEnv.RegisterFun(v.Type)
		e.Rt.RegisterFun(v)
	}
}

func (e *Engine) Parse(src string) ast.Expr {
	toks := lexer.NewLexer(e.Ops).Lex(src)
	return parser.NewParser(e.Ops).Parse(toks)
}

// Front runs parse, desugar and type check. env maps names to types.
func (e *Engine) Front(src string, env map[string]*types.Type, names []string) (expr ast.Expr, ty *types.Type, class string) {
	class = sv.Outcome(func() {
		parsed := e.Parse(src)
		expr, ty = e.CheckAST(parsed, env, names)
	})
	return
}

// CheckAST desugars and type checks an AST against a fresh environment.
func (e *Engine) CheckAST(parsed ast.Expr, env map[string]*types.Type, names []string) (ast.Expr, *types.Type) {
	expr := trans.Desugar(parsed)
	te := types.NewEnv()
	for _, n := range names {
		te.Put(n, env[n])
	}
	for _, ft := range e.UserFuns {
		te.RegisterFun(ft)
	}
	ty := types.Check(expr, te.Inherit(e.TyEnv))
	return expr, ty
}

// Run evaluates a compiled closure on the given bindings.
func (e *Engine) Run(cl compiler.Closure, vals map[string]*val.Val, names []string) (res *val.Val, class string) {
	class = sv.Outcome(func() {
		ve := val.NewEnv()
		for _, n := range names {
			ve.Put(n, vals[n])
		}
		res = cl(ve.Inherit(e.Rt))
	})
	return
}

// ---- outcome classes

func hasPrefix(s, p string) bool { return len(s) >= len(p) && s[:len(p)] == p }

// InternalFault reports outcome classes that are never a legitimate language
// failure: memory-unsafe variant access, nil dereference, failed Go type
// assertion, stack underflow (empty assert message), unreachable branches,
// unknown opcodes, the exec limit.
func InternalFault(class string) bool {
	switch {
	case class == "cast", class == "rt:nil", class == "rt:typeassert", class == "rt:other":
		return true
	case class == "assert:":
		return true
	case hasPrefix(class, "panic:unreachable"), hasPrefix(class, "panic:over exec limit"),
		hasPrefix(class, "assert:unsupported opcode"), hasPrefix(class, "panic:not support"):
		return true
	case hasPrefix(class, "panic:"):
		return true
	}
	return false
}

func IsOutOfRange(class string) bool {
	return hasPrefix(class, "assert:out of range") || class == "rt:index"
}
func IsUndefinedKey(class string) bool { return hasPrefix(class, "assert:undefined key") }
func IsDivide(class string) bool       { return class == "rt:divide" }

// ---- reference type equality (independent of types.Equals)

func RefTypeEq(a, b *types.Type) bool {
	if a == nil || b == nil {
		return a == b
	}
	if a.Kind != b.Kind {
		return false
	}
	switch a.Kind {
	case types.KNum, types.KStr, types.KBool, types.KTime, types.KBot, types.KTop:
		return true
	case types.KTyVar:
		return a.TyVar().Name == b.TyVar().Name
	case types.KList:
		return RefTypeEq(a.List().El, b.List().El)
	case types.KMap:
		return RefTypeEq(a.Map().Key, b.Map().Key) && RefTypeEq(a.Map().Val, b.Map().Val)
	case types.KMaybe:
		return RefTypeEq(a.Maybe().Elem, b.Maybe().Elem)
	case types.KObj:
		fa, fb := a.Obj().Fields, b.Obj().Fields
		if len(fa) != len(fb) {
			return false
		}
		for _, x := range fa {
			found := false
			for _, y := range fb {
				if x.Name == y.Name {
					if found || !RefTypeEq(x.Val, y.Val) {
						return false
					}
					found = true
				}
			}
			if !found {
				return false
			}
		}
		return true
	case types.KFun:
		pa, pb := a.Fun().Param, b.Fun().Param
		if len(pa) != len(pb) {
			return false
		}
		for i := range pa {
			if !RefTypeEq(pa[i], pb[i]) {
				return false
			}
		}
		return RefTypeEq(a.Fun().Return, b.Fun().Return)
	default: // tuple
		ta, tb := a.Tuple().Val, b.Tuple().Val
		if len(ta) != len(tb) {
			return false
		}
		for i := range ta {
			if !RefTypeEq(ta[i], tb[i]) {
				return false
			}
		}
		return true
	}
}

// RefWellTyped: v has type t and every component has the type its own
// container declares, with no nil component. "" = fine, otherwise what is
// wrong. ⊥ in t matches any element type of an empty container.
func RefWellTyped(v *val.Val, t *types.Type) string {
	if v == nil {
		return "nil value"
	}
	if v.Type == nil {
		return "nil type"
	}
	if !refCompatible(v.Type, t) {
		return "has type " + v.Type.String() + ", expected " + t.String()
	}
	return refSelfConsistent(v)
}

// refCompatible is RefTypeEq except that the empty-container element type ⊥
// is accepted in the value's type where the static type is more precise, and
// vice versa (the checker gives [] the type list[⊥]).
func refCompatible(vt, t *types.Type) bool {
	if vt == nil || t == nil {
		return false
	}
	if vt.Kind == types.KBot || t.Kind == types.KBot {
		// ⊥ is the element type of an empty literal and of nothing else: a
		// value produced at type list[num] is a list[num], empty or not
		return vt.Kind == t.Kind
	}
	if vt.Kind != t.Kind {
		return false
	}
	switch t.Kind {
	case types.KList:
		return refCompatible(vt.List().El, t.List().El)
	case types.KMap:
		return refCompatible(vt.Map().Key, t.Map().Key) && refCompatible(vt.Map().Val, t.Map().Val)
	case types.KMaybe:
		return refCompatible(vt.Maybe().Elem, t.Maybe().Elem)
	case types.KObj:
		fa, fb := vt.Obj().Fields, t.Obj().Fields
		if len(fa) != len(fb) {
			return false
		}
		for _, x := range fa {
			found := false
			for _, y := range fb {
				if x.Name == y.Name {
					if !refCompatible(x.Val, y.Val) {
						return false
					}
					found = true
				}
			}
			if !found {
				return false
			}
		}
		return true
	}
	return RefTypeEq(vt, t)
}

func refSelfConsistent(v *val.Val) string {
	switch v.Type.Kind {
	case types.KList:
		el := v.Type.List().El
		if el.Kind == types.KBot && len(v.List().V) > 0 {
			return "non-empty list whose own type is " + v.Type.String()
		}
		for _, x := range v.List().V {
			if r := RefWellTyped(x, el); r != "" {
				return "list element: " + r
			}
		}
	case types.KMap:
		mt := v.Type.Map()
		if (mt.Val.Kind == types.KBot || mt.Key.Kind == types.KBot) && len(v.Map().V) > 0 {
			return "non-empty map whose own type is " + v.Type.String()
		}
		for k, x := range v.Map().V {
			_ = k
			if r := RefWellTyped(x, mt.Val); r != "" {
				return "map value: " + r
			}
		}
	case types.KObj:
		fs := v.Type.Obj().Fields
		ov := v.Obj().V
		if len(ov) != len(fs) {
			return "object arity"
		}
		for i, x := range ov {
			if r := RefWellTyped(x, fs[i].Val); r != "" {
				return "field " + fs[i].Name + ": " + r
			}
		}
	case types.KMaybe:
		if p := v.Maybe().V; p != nil {
			if r := RefWellTyped(p, v.Type.Maybe().Elem); r != "" {
				return "optional payload: " + r
			}
		}
	}
	return ""
}

// RefSameVal: structural identity of two results (doubles bit-for-bit with
// NaN = NaN; objects by field name; maps by key). Independent of val.Equals.
func RefSameVal(a, b *val.Val) bool {
	if a == nil || b == nil {
		return a == b
	}
	if a.Type == nil || b.Type == nil || a.Type.Kind != b.Type.Kind {
		return false
	}
	switch a.Type.Kind {
	case types.KNum:
		return sv.Same(a.Num().V, b.Num().V)
	case types.KBool:
		return a.Bool().V == b.Bool().V
	case types.KStr:
		return a.Str().V == b.Str().V
	case types.KTime:
		return a.Time().V.Equal(b.Time().V)
	case types.KList:
		x, y := a.List().V, b.List().V
		if len(x) != len(y) {
			return false
		}
		ok := true
		for i := range x {
			ok = sv.And(ok, RefSameVal(x[i], y[i]))
		}
		return ok
	case types.KMap:
		x, y := a.Map().V, b.Map().V
		if len(x) != len(y) {
			return false
		}
		ok := true
		for k, xv := range x {
			yv, found := y[k]
			if !found {
				return false
			}
			ok = sv.And(ok, RefSameVal(xv, yv))
		}
		return ok
	case types.KObj:
		fa := a.Type.Obj().Fields
		if len(fa) != len(b.Type.Obj().Fields) {
			return false
		}
		ok := true
		for i, f := range fa {
			bv, found := b.Obj().Get(f.Name)
			if !found {
				return false
			}
			ok = sv.And(ok, RefSameVal(a.Obj().V[i], bv))
		}
		return ok
	case types.KMaybe:
		x, y := a.Maybe().V, b.Maybe().V
		if x == nil || y == nil {
			return x == nil && y == nil
		}
		return RefSameVal(x, y)
	case types.KFun:
		return a == b
	}
	return false
}

// ---- type catalogue

func ObjT(names []string, tys []*types.Type) *types.Type {
	fs := make([]types.Field, len(names))
	for i := range names {
		fs[i] = types.Field{Name: names[i], Val: tys[i]}
	}
	return types.Obj(fs)
}

var (
	TObjAB = ObjT([]string{"a", "b"}, []*types.Type{types.Num, types.Str})
	TObjBA = ObjT([]string{"b", "a"}, []*types.Type{types.Str, types.Num})
)

// Catalogue returns type number k of the catalogue (TC1: 14 types; TC2 adds more).
func Catalogue(k int) *types.Type {
	switch k {
	case 0:
		return types.Num
	case 1:
		return types.Str
	case 2:
		return types.Bool
	case 3:
		return types.Time
	case 4:
		return types.List(types.Num)
	case 5:
		return types.List(types.Bottom)
	case 6:
		return types.Map(types.Str, types.Num)
	case 7:
		return types.Map(types.Num, types.Str)
	case 8:
		return types.Maybe(types.Num)
	case 9:
		return ObjT(nil, nil)
	case 10:
		return ObjT([]string{"a"}, []*types.Type{types.Num})
	case 11:
		return TObjAB
	case 12:
		return TObjBA
	case 13:
		return types.List(TObjAB)
	case 14:
		return types.Map(types.Str, TObjAB)
	case 15:
		return types.Maybe(TObjBA)
	// TC2
	case 16:
		return types.List(types.Str)
	case 17:
		return types.Map(types.Bottom, types.Bottom)
	case 25:
		return types.Maybe(types.List(types.Num))
	case 19:
		return types.Maybe(ObjT([]string{"a"}, []*types.Type{types.Num}))
	case 18:
		return types.List(types.List(types.Num))
	case 20:
		return ObjT([]string{"a", "b", "c"}, []*types.Type{types.Num, types.Str, types.Bool})
	case 21:
		return ObjT([]string{"c", "a", "b"}, []*types.Type{types.Bool, types.Num, types.Str})
	case 22:
		return ObjT([]string{"o"}, []*types.Type{TObjAB})
	case 23:
		return types.List(types.Maybe(types.Num))
	case 24:
		return types.Map(types.Bool, types.List(types.Num))
	default:
		return types.Map(types.Time, types.Num)
	}
}

const TC1 = 16
const TC2 = 27

func CatalogueSize() int {
	if sv.Thorough() {
		return TC2
	}
	return TC1
}

// Permuted returns a type equal to t (by RefTypeEq) whose object fields are
// written in a selector-chosen order, at every depth.
func Permuted(t *types.Type, name string) *types.Type {
	switch t.Kind {
	case types.KList:
		return types.List(Permuted(t.List().El, name+".el"))
	case types.KMap:
		return types.Map(t.Map().Key, Permuted(t.Map().Val, name+".val"))
	case types.KMaybe:
		return types.Maybe(Permuted(t.Maybe().Elem, name+".elem"))
	case types.KObj:
		fs := t.Obj().Fields
		n := len(fs)
		if n == 0 {
			return t
		}
		idx := make([]int, n)
		for i := range idx {
			idx[i] = i
		}
		// rotation + optional swap: covers all 2 (n=2) / all 6 (n=3) orders
		rot := sv.Choice(name+".rot", n)
		out := make([]types.Field, n)
		for i := 0; i < n; i++ {
			f := fs[(i+rot)%n]
			out[i] = types.Field{Name: f.Name, Val: Permuted(f.Val, name+"."+f.Name)}
		}
		if n >= 3 && sv.Choice(name+".swap", 2) == 1 {
			out[1], out[2] = out[2], out[1]
		}
		return types.Obj(out)
	}
	return t
}

// ---- arbitrary well-typed values

// StrPoolQuick keeps the quick tier's three strings in the thorough tier too
// (for harnesses that quantify structure, not string contents).
var StrPoolQuick = false

var strPool = [...]string{"", "a\"\\\n", "é晓", "hello", "a", "\xff"}

// AnyStr: a selector-chosen concrete string (ASCII, multi-byte, needing
// escapes, invalid UTF-8) or, in dedicated harnesses, symbolic bytes.
func AnyStr(name string) string {
	n := 3
	if sv.Thorough() && !StrPoolQuick {
		n = len(strPool)
	}
	return strPool[sv.Choice(name+".str", n)]
}

// maxLen: list / map sizes are chosen in [0, maxLen).
var MaxLenQuick = 3

// ThoroughLenCap, when > 0, is the size bound of the thorough tier for the
// harness that sets it. By default the thorough tier keeps the quick tier's
// container sizes - the number of value combinations grows with a power of
// the sizes, and what the thorough tier widens is the type catalogue (TC2),
// the string pool and each harness's own depth / length / width parameters.
var ThoroughLenCap = 0

func maxLen() int {
	if sv.Thorough() && ThoroughLenCap > 0 {
		return ThoroughLenCap
	}
	return MaxLenQuick
}

// NumLeaves collects the numeric leaves AnyVal created on this path.
var NumLeaves []float64

// NumPool, when set, makes AnyVal pick numbers from a concrete pool (used
// where the structure, not the number, is what is quantified).
var NumPool []float64

// ConcreteTimes makes AnyVal pick instants from a small concrete set.
var ConcreteTimes bool

// AssumeSeparated: numeric leaves are finite, below 2^53 in magnitude unless
// wide is set, and pairwise bit-identical or more than 1e-9 apart (the
// precondition of C18).
func AssumeSeparated(xs []float64, wide bool) {
	for i, x := range xs {
		if wide {
			sv.Assume(sv.And(x == x, x-x == 0))
		} else {
			sv.Assume(sv.And(x == x, x > -9007199254740992, x < 9007199254740992))
		}
		for j := 0; j < i; j++ {
			y := xs[j]
			sv.Assume(sv.Or(sv.Same(x, y), x-y > 1e-9, y-x > 1e-9))
		}
	}
}

// AnyVal builds an arbitrary well-formed value whose type is exactly t.
func AnyVal(t *types.Type, name string) *val.Val {
	switch t.Kind {
	case types.KNum:
		if NumPool != nil {
			return val.Num(NumPool[sv.Choice(name+".num", len(NumPool))])
		}
		x := sv.Float64(name)
		NumLeaves = append(NumLeaves, x)
		return val.Num(x)
	case types.KBool:
		// one value object per truth value, as val.Bool does, without forking
		if sv.Bool(name) {
			return val.True
		}
		return val.False
	case types.KStr:
		return val.Str(AnyStr(name))
	case types.KTime:
		if ConcreteTimes {
			secs := [...]int64{0, 1700000000, -1}
			return val.Time(time.Unix(secs[sv.Choice(name+".time", len(secs))], 0))
		}
		s := sv.Int64(name)
		sv.Assume(s > -60000000000 && s < 250000000000)
		return val.Time(time.Unix(s, 0))
	case types.KList:
		lt := t.List()
		if lt.El.Kind == types.KBot {
			return val.List(lt, 0)
		}
		n := sv.Choice(name+".len", maxLen())
		l := val.List(lt, n).List()
		for i := 0; i < n; i++ {
			l.V[i] = AnyVal(lt.El, name+"["+itoa(i)+"]")
		}
		return l.Vl()
	case types.KMap:
		mt := t.Map()
		m := val.Map(mt).Map()
		if mt.Key.Kind == types.KBot {
			return m.Vl()
		}
		n := sv.Choice(name+".len", maxLen())
		for i := 0; i < n; i++ {
			k := AnyVal(mt.Key, name+".k"+itoa(i))
			m.V[k.Key()] = AnyVal(mt.Val, name+".v"+itoa(i))
		}
		return m.Vl()
	case types.KObj:
		ot := t.Obj()
		o := val.Obj(ot).Obj()
		for i, f := range ot.Fields {
			o.V[i] = AnyVal(f.Val, name+"."+f.Name)
		}
		return o.Vl()
	case types.KMaybe:
		el := t.Maybe().Elem
		if sv.Choice(name+".present", 2) == 0 {
			return val.Nothing(el)
		}
		return val.Just(el, AnyVal(el, name+".some"))
	}
	panic("hx.AnyVal: unsupported kind " + t.String())
}

func itoa(i int) string {
	if i < 10 {
		return string(rune('0' + i))
	}
	return itoa(i/10) + string(rune('0'+i%10))
}

func Itoa(i int) string { return itoa(i) }

func timeUnix(s int64) time.Time { return time.Unix(s, 0) }
