//go:build verif

package hx

import (
	"github.com/goghcrow/yae/types"
	"github.com/goghcrow/yae/zzverif/sv"
)

// type generator: depth-bounded, selector-driven. Two type variables are
// shared by both sides of a pair so that repeated variables occur.
type tgen struct {
	va, vb *types.Type
	vars   bool
}

const nLeaf = 4

func (g *tgen) leaf(name string) *types.Type {
	n := nLeaf
	if g.vars {
		n += 2
	}
	switch sv.Choice(name, n) {
	case 0:
		return types.Num
	case 1:
		return types.Str
	case 2:
		return types.Bool
	case 3:
		return types.Time
	case 4:
		return g.va
	default:
		return g.vb
	}
}

func (g *tgen) key(name string) *types.Type {
	n := 2
	if g.vars {
		n = 4
	}
	switch sv.Choice(name, n) {
	case 0:
		return types.Num
	case 1:
		return types.Str
	case 2:
		return g.va
	default:
		return g.vb
	}
}

// gen builds a type of nesting depth <= d.
func (g *tgen) gen(d int, name string) *types.Type {
	if d == 0 {
		return g.leaf(name)
	}
	switch sv.Choice(name+".k", 7) {
	case 0:
		return g.leaf(name)
	case 1:
		return types.List(g.gen(d-1, name+".el"))
	case 2:
		return types.Map(g.key(name+".key"), g.gen(d-1, name+".val"))
	case 3:
		return types.Maybe(g.gen(d-1, name+".some"))
	case 4:
		return ObjT([]string{"a"}, []*types.Type{g.gen(d-1, name+".a")})
	case 5:
		// (at depth 2 the two-field constructors take leaves: the number of
		// pairs of types has to stay within the path budget)
		dd := d - 1
		if d >= 2 {
			dd = 0
		}
		a, b := g.gen(dd, name+".a"), g.gen(dd, name+".b")
		// two fields: the names {a,b} in both orders, and name sets that
		// differ from it in one name, in both positions
		switch sv.Choice(name+".order", 5) {
		case 0:
			return ObjT([]string{"a", "b"}, []*types.Type{a, b})
		case 1:
			return ObjT([]string{"b", "a"}, []*types.Type{b, a})
		case 2:
			return ObjT([]string{"a", "c"}, []*types.Type{a, b})
		case 3:
			return ObjT([]string{"c", "a"}, []*types.Type{b, a})
		default:
			return ObjT([]string{"c", "b"}, []*types.Type{a, b})
		}
	default:
		dd := d - 1
		if d >= 2 {
			dd = 0
		}
		return types.Fun("f", []*types.Type{g.gen(dd, name+".p")}, g.gen(dd, name+".r"))
	}
}

// refApply applies a substitution (independent of types.applySubst).
func refApply(t *types.Type, m map[string]*types.Type, fuel int) *types.Type {
	if fuel == 0 {
		return t
	}
	switch t.Kind {
	case types.KTyVar:
		if r, ok := m[t.TyVar().Name]; ok && !(r.Kind == types.KTyVar && r.TyVar().Name == t.TyVar().Name) {
			return refApply(r, m, fuel-1)
		}
		return t
	case types.KList:
		return types.List(refApply(t.List().El, m, fuel))
	case types.KMap:
		return types.Map(refApply(t.Map().Key, m, fuel), refApply(t.Map().Val, m, fuel))
	case types.KMaybe:
		return types.Maybe(refApply(t.Maybe().Elem, m, fuel))
	case types.KObj:
		fs := t.Obj().Fields
		out := make([]types.Field, len(fs))
		for i, f := range fs {
			out[i] = types.Field{Name: f.Name, Val: refApply(f.Val, m, fuel)}
		}
		return types.Obj(out)
	case types.KFun:
		f := t.Fun()
		ps := make([]*types.Type, len(f.Param))
		for i, p := range f.Param {
			ps[i] = refApply(p, m, fuel)
		}
		return types.Fun(f.Name, ps, refApply(f.Return, m, fuel))
	case types.KNum, types.KStr, types.KBool, types.KTime, types.KBot, types.KTop:
		return t
	default: // tuple
		vs := t.Tuple().Val
		out := make([]*types.Type, len(vs))
		for i, v := range vs {
			out[i] = refApply(v, m, fuel)
		}
		return types.Tuple(out)
	}
	return t
}

func refOccurs(name string, t *types.Type) bool {
	switch t.Kind {
	case types.KTyVar:
		return t.TyVar().Name == name
	case types.KList:
		return refOccurs(name, t.List().El)
	case types.KMap:
		return refOccurs(name, t.Map().Key) || refOccurs(name, t.Map().Val)
	case types.KMaybe:
		return refOccurs(name, t.Maybe().Elem)
	case types.KObj:
		for _, f := range t.Obj().Fields {
			if refOccurs(name, f.Val) {
				return true
			}
		}
	case types.KFun:
		for _, p := range t.Fun().Param {
			if refOccurs(name, p) {
				return true
			}
		}
		return refOccurs(name, t.Fun().Return)
	}
	return false
}

func refHasVar(t *types.Type, g *tgen) bool {
	return refOccurs(g.va.TyVar().Name, t) || refOccurs(g.vb.TyVar().Name, t)
}

// refMatch: does an instantiation of the pattern's variables make it equal to
// the variable-free type c?
func refMatch(p, c *types.Type, bind map[string]*types.Type) bool {
	if p.Kind == types.KTyVar {
		if b, ok := bind[p.TyVar().Name]; ok {
			return RefTypeEq(b, c)
		}
		bind[p.TyVar().Name] = c
		return true
	}
	if p.Kind != c.Kind {
		return false
	}
	switch p.Kind {
	case types.KList:
		return refMatch(p.List().El, c.List().El, bind)
	case types.KMap:
		return refMatch(p.Map().Key, c.Map().Key, bind) && refMatch(p.Map().Val, c.Map().Val, bind)
	case types.KMaybe:
		return refMatch(p.Maybe().Elem, c.Maybe().Elem, bind)
	case types.KObj:
		pf, cf := p.Obj().Fields, c.Obj().Fields
		if len(pf) != len(cf) {
			return false
		}
		for _, x := range pf {
			found := false
			for _, y := range cf {
				if x.Name == y.Name {
					if !refMatch(x.Val, y.Val, bind) {
						return false
					}
					found = true
				}
			}
			if !found {
				return false
			}
		}
		return true
	case types.KFun:
		pp, cp := p.Fun().Param, c.Fun().Param
		if len(pp) != len(cp) {
			return false
		}
		for i := range pp {
			if !refMatch(pp[i], cp[i], bind) {
				return false
			}
		}
		return refMatch(p.Fun().Return, c.Fun().Return, bind)
	}
	return true
}

func genDepth() int {
	if sv.Thorough() {
		return 2
	}
	return 1
}

// H17_equals: Equals coincides with structural identity (fields by name) and
// is reflexive and symmetric.
func H17_equals() {
	g := &tgen{va: types.TyVar("a"), vb: types.TyVar("b"), vars: true}
	s := g.gen(genDepth(), "s")
	t := g.gen(1, "t") // (thorough: depth 2 against depth 1 - 2 000 x 260 pairs)
	want := RefTypeEq(s, t)
	sv.Assert("equals-iff-structurally-identical", types.Equals(s, t) == want)
	sv.Assert("symmetric", types.Equals(t, s) == want)
	sv.Assert("reflexive", types.Equals(s, s) && types.Equals(t, t))
	sv.Reach("compared")
}

// H17_trans: transitivity on triples (depth 1).
func H17_trans() {
	g := &tgen{va: types.TyVar("a"), vb: types.TyVar("b"), vars: false}
	s, t := g.gen(1, "s"), g.gen(1, "t")
	if !types.Equals(s, t) {
		// every (s, t) pair is visited; the third type is only enumerated
		// behind a pair that Equals relates
		sv.Reach("unrelated-pair")
		return
	}
	u := g.gen(1, "u")
	if types.Equals(t, u) {
		sv.Reach("chain")
		sv.Assert("transitive", types.Equals(s, u))
	}
}

// H17_unify: a successful unification makes both sides equal under the
// substitution, binds no variable to a type containing it; a pattern
// against a variable-free type unifies exactly when an instantiation exists.
func H17_unify() {
	g := &tgen{va: types.TyVar("a"), vb: types.TyVar("b"), vars: true}
	s := g.gen(genDepth(), "s")
	t := g.gen(1, "t")
	checkUnify(g, s, t)
}

// H17_pairs: argument tuples, as the checker builds them: the two variables
// against two depth-1 types that may mention them (so that the second
// component is unified under a binding made by the first), in both
// orientations.
func H17_pairs() {
	g := &tgen{va: types.TyVar("a"), vb: types.TyVar("b"), vars: true}
	vars := types.Tuple([]*types.Type{g.va, g.vb})
	if sv.Choice("vars-swapped", 2) == 1 {
		vars = types.Tuple([]*types.Type{g.vb, g.va})
	}
	comp := func(name string) *types.Type {
		switch sv.Choice(name+".k", 4) {
		case 0:
			return g.leaf(name)
		case 1:
			return types.List(g.leaf(name + ".el"))
		case 2:
			return types.Maybe(g.leaf(name + ".some"))
		default:
			return ObjT([]string{"a", "b"}, []*types.Type{g.leaf(name + ".a"), g.leaf(name + ".b")})
		}
	}
	tys := types.Tuple([]*types.Type{comp("p"), comp("q")})
	if sv.Choice("orientation", 2) == 0 {
		checkUnifySound(g, vars, tys, false)
	} else {
		checkUnifySound(g, tys, vars, false)
	}
}

func checkUnify(g *tgen, s, t *types.Type) { checkUnifySound(g, s, t, true) }

func checkUnifySound(g *tgen, s, t *types.Type, complete bool) {
	m := map[string]*types.Type{}
	var u *types.Type
	cls := sv.Outcome(func() { u = types.Unify(s, t, m) })
	sv.Assert("unify-does-not-fail-internally", cls == "ok")
	if cls != "ok" {
		return
	}
	if u != nil {
		sv.Reach("unified")
		var sa, ta *types.Type
		// a variable in map-key position may have been bound to a type that is
		// not a key type; the type constructors refuse to build that, and the
		// statement says nothing about it
		if sv.Outcome(func() { sa, ta = refApply(s, m, 8), refApply(t, m, 8) }) != "ok" {
			sv.Reach("substitution-not-a-type")
			return
		}
		sv.Assert("substitution-makes-both-sides-equal", RefTypeEq(sa, ta))
		for name, img := range m {
			sv.Assert("no-variable-bound-to-a-type-containing-it", !refOccurs(name, refApply(img, m, 8)) || (img.Kind == types.KTyVar && img.TyVar().Name == name))
		}
	}
	if !complete {
		return
	}
	// completeness for pattern vs variable-free type (either side)
	if !refHasVar(t, g) {
		sv.Reach("pattern-vs-concrete")
		sv.Assert("unifies-iff-an-instantiation-exists", (u != nil) == refMatch(s, t, map[string]*types.Type{}))
	} else if !refHasVar(s, g) {
		sv.Assert("unifies-iff-an-instantiation-exists-(flipped)", (u != nil) == refMatch(t, s, map[string]*types.Type{}))
	}
}

// H17_bottom: the empty-container element type equals only itself.
func H17_bottom() {
	g := &tgen{va: types.TyVar("a"), vb: types.TyVar("b"), vars: false}
	t := g.gen(1, "t")
	sv.Assert("bottom-equals-only-bottom", !types.Equals(types.Bottom, t) && !types.Equals(t, types.Bottom) && types.Equals(types.Bottom, types.Bottom))
	sv.Assert("list-of-bottom-is-not-list-of-t", !types.Equals(types.List(types.Bottom), types.List(t)))
	sv.Reach("compared")
}

// slot: a leaf or one constructor over a leaf, leaves from {num, a, b}
func (g *tgen) slot(name string) *types.Type {
	leaf := func(k int) *types.Type {
		switch k {
		case 0:
			return types.Num
		case 1:
			return g.va
		default:
			return g.vb
		}
	}
	k := sv.Choice(name, 9)
	l := leaf(k % 3)
	switch k / 3 {
	case 0:
		return l
	case 1:
		return types.List(l)
	default:
		return types.Maybe(l)
	}
}

// H17_alias: two-slot types (object fields, map key/value, a function's
// parameter and result) whose slots are a variable, a constant or one
// constructor over them. This is where a variable first aliased to another
// one meets a constructor containing it later in the traversal - f(X, g(X))
// against f(Y, Y) - so the occurs check has to look through the bindings
// made so far.
func H17_alias() {
	g := &tgen{va: types.TyVar("a"), vb: types.TyVar("b"), vars: true}
	kind := sv.Choice("kind", 4)
	mk := func(name string) *types.Type {
		x, y := g.slot(name+".1"), g.slot(name+".2")
		switch kind {
		case 0:
			return ObjT([]string{"a", "b"}, []*types.Type{x, y})
		case 1:
			return types.Fun("f", []*types.Type{x}, y)
		case 2:
			return types.Fun("f", []*types.Type{x, y}, types.Num)
		default:
			return types.List(ObjT([]string{"p", "q"}, []*types.Type{x, y}))
		}
	}
	s, t := mk("s"), mk("t")
	m := map[string]*types.Type{}
	var u *types.Type
	cls := sv.Outcome(func() { u = types.Unify(s, t, m) })
	sv.Assert("unify-does-not-fail-internally", cls == "ok")
	if cls != "ok" || u == nil {
		sv.Reach("not-unified")
		return
	}
	sv.Reach("unified")
	for name, img := range m {
		sv.Assert("no-variable-bound-to-a-type-containing-it", !refOccurs(name, refApply(img, m, 8)) || (img.Kind == types.KTyVar && img.TyVar().Name == name))
	}
	sa, ta := refApply(s, m, 8), refApply(t, m, 8)
	sv.Assert("substitution-makes-both-sides-equal", RefTypeEq(sa, ta))
	sv.Assert("result-is-the-common-instance", RefTypeEq(refApply(u, m, 8), sa))
}

// H17_shared: types are graphs, not trees - a type object may sit at two
// positions (the checker hands out the very object stored in the environment
// for every use of a variable). Equality must compare what stands opposite
// each position, however often it has met the node before: the left type
// shares one composite node under both slots, the right one is built from
// fresh nodes and may differ at either slot.
func H17_shared() {
	comp := func(name string) *types.Type {
		switch sv.Choice(name, 6) {
		case 0:
			return types.List(types.Num)
		case 1:
			return types.List(types.Str)
		case 2:
			return types.Map(types.Str, types.Num)
		case 3:
			return ObjT([]string{"a"}, []*types.Type{types.Num})
		case 4:
			return types.Maybe(types.Num)
		default:
			return types.List(types.List(types.Num))
		}
	}
	shared, other1, other2 := comp("shared"), comp("r1"), comp("r2")
	kind := sv.Choice("kind", 5)
	mk := func(x, y *types.Type) *types.Type {
		switch kind {
		case 0:
			return ObjT([]string{"a", "b"}, []*types.Type{x, y})
		case 1:
			return types.Fun("f", []*types.Type{x}, y)
		case 2:
			return types.Fun("f", []*types.Type{x, y}, types.Num)
		case 3:
			return types.List(ObjT([]string{"p", "q"}, []*types.Type{x, y}))
		default:
			return types.Tuple([]*types.Type{x, y})
		}
	}
	left := mk(shared, shared)
	right := mk(other1, other2)
	want := RefTypeEq(left, right)
	sv.Assert("equals-iff-structurally-identical-(shared-node-left)", types.Equals(left, right) == want)
	sv.Assert("equals-iff-structurally-identical-(shared-node-right)", types.Equals(right, left) == want)
	sv.Reach("compared")
}

// concrete side of a match: a leaf, ⊥, or one constructor over them
func (g *tgen) conc(name string) *types.Type {
	leaf := func(k int) *types.Type {
		switch k {
		case 0:
			return types.Num
		case 1:
			return types.Str
		default:
			return types.Bottom
		}
	}
	k := sv.Choice(name, 9)
	l := leaf(k % 3)
	switch k / 3 {
	case 0:
		return l
	case 1:
		return types.List(l)
	default:
		return types.Map(types.Str, l)
	}
}

// H17_repeat: a pattern in which one variable occurs twice, matched against
// a variable-free type whose two positions hold a leaf, the empty-container
// element type ⊥, or a container of either: unification succeeds exactly
// when both positions hold the same type (⊥ is a type of its own here: a
// variable already bound to list[num] does not also match list[⊥]), in
// either order of the two positions.
func H17_repeat() {
	g := &tgen{va: types.TyVar("a"), vb: types.TyVar("b"), vars: true}
	kind := sv.Choice("kind", 4)
	wrap := sv.Choice("wrap", 3)
	pv := func() *types.Type {
		switch wrap {
		case 0:
			return g.va
		case 1:
			return types.List(g.va)
		default:
			return types.Maybe(g.va)
		}
	}
	cw := func(t *types.Type) *types.Type {
		switch wrap {
		case 0:
			return t
		case 1:
			return types.List(t)
		default:
			return types.Maybe(t)
		}
	}
	mk := func(x, y *types.Type) *types.Type {
		switch kind {
		case 0:
			return ObjT([]string{"a", "b"}, []*types.Type{x, y})
		case 1:
			return types.Fun("f", []*types.Type{x}, y)
		case 2:
			return types.Fun("f", []*types.Type{x, y}, types.Num)
		default:
			return types.Tuple([]*types.Type{x, y})
		}
	}
	c1, c2 := g.conc("c1"), g.conc("c2")
	pat, con := mk(pv(), pv()), mk(cw(c1), cw(c2))
	m := map[string]*types.Type{}
	var u *types.Type
	cls := sv.Outcome(func() { u = types.Unify(pat, con, m) })
	sv.Assert("unify-does-not-fail-internally", cls == "ok")
	if cls != "ok" {
		return
	}
	// The rules (types/unify.go): a variable that is already bound matches
	// only a type equal to its binding; the one place where ⊥ is let through
	// is an argument position of a function type, where the pattern has been
	// instantiated before it meets the argument and ⊥ on the argument's side
	// stands for "the element type of an empty literal".
	want := RefTypeEq(c1, c2)
	if kind == 2 {
		want = refBotMatch(cw(c1), cw(c2))
	}
	sv.Assert("repeated-variable-matches-only-where-the-rules-allow", (u != nil) == want)
	if u != nil && RefTypeEq(c1, c2) {
		sv.Reach("unified")
		sv.Assert("substitution-makes-both-sides-equal", RefTypeEq(refApply(pat, m, 8), con))
	}
}

// refBotMatch: x and y are equal, except that y may have ⊥ where x has any
// (variable-free) type.
func refBotMatch(x, y *types.Type) bool {
	if y.Kind == types.KBot {
		return true
	}
	if x.Kind != y.Kind {
		return false
	}
	switch x.Kind {
	case types.KList:
		return refBotMatch(x.List().El, y.List().El)
	case types.KMap:
		return refBotMatch(x.Map().Key, y.Map().Key) && refBotMatch(x.Map().Val, y.Map().Val)
	case types.KMaybe:
		return refBotMatch(x.Maybe().Elem, y.Maybe().Elem)
	}
	return RefTypeEq(x, y)
}
