//go:build verif

package hx

import (
	"github.com/goghcrow/yae/compiler"
	"github.com/goghcrow/yae/parser"
	"github.com/goghcrow/yae/parser/ast"
	"github.com/goghcrow/yae/parser/lexer"
	"github.com/goghcrow/yae/parser/oper"
	"github.com/goghcrow/yae/trans"
	"github.com/goghcrow/yae/types"
	"github.com/goghcrow/yae/val"
	"github.com/goghcrow/yae/zzverif/sv"
)

func hasSugar(e ast.Expr) bool {
	found := false
	var visit func(n ast.Expr)
	visit = func(n ast.Expr) {
		switch x := n.(type) {
		case *ast.UnaryExpr, *ast.BinaryExpr, *ast.TenaryExpr, *ast.GroupExpr:
			found = true
		case *ast.CallExpr:
			if _, ok := x.Callee.(*ast.MemberExpr); ok {
				found = true // method-call syntax
			}
			visit(x.Callee)
			for _, a := range x.Args {
				visit(a)
			}
		case *ast.SubscriptExpr:
			visit(x.Var)
			visit(x.Idx)
		case *ast.MemberExpr:
			visit(x.Obj)
		case *ast.ListExpr:
			for _, a := range x.Elems {
				visit(a)
			}
		case *ast.MapExpr:
			for _, a := range x.Pairs {
				visit(a.Key)
				visit(a.Val)
			}
		case *ast.ObjExpr:
			for _, f := range x.Fields {
				visit(f.Val)
			}
		}
	}
	visit(e)
	return found
}

// sugar forms nested in every operand position of every node kind
var sugarKernels = []string{"a + b", "-a", "c ? a : b", "o.f(a)", "(a)", "a.b", "a[b]", "f(a)", "[a]", "[a: b]", "{x: a}",
	// literal operands (what a desugarer that folds constants would look at)
	"true ? a : b", "false ? a : b", "(true) ? 1 : \"x\"", "1 + 2", "-1", "!true", "a and b", "a or b", "not a", "a and not b or z", "(f(a + b))", "(o.f(a))", "([a + b])"}
var sugarContexts = []string{
	"%s", "%s + z", "z + %s", "-%s", "(%s)", "%s ? z : w", "z ? %s : w", "z ? w : %s",
	"f(%s)", "f(z, %s)", "%s.g(z)", "z.g(%s)", "[%s, z]", "[z: %s]", "[%s: z]", "{x: %s}", "%s[z]", "z[%s]", "(%s).h", "g(%s)(z)",
}

func subst(ctx, k string) string {
	out := ""
	for i := 0; i < len(ctx); i++ {
		if ctx[i] == '%' && i+1 < len(ctx) && ctx[i+1] == 's' {
			out += "(" + k + ")"
			i++
			continue
		}
		out += string(ctx[i])
	}
	return out
}

// H10_shape: desugaring leaves only core forms, is idempotent, keeps the
// original tree untouched and produces exactly the call each sugar stands
// for (receiver first, operands in source order), in every nesting position.
func H10_shape() {
	e := Eng()
	k := sugarKernels[sv.Choice("kernel", len(sugarKernels))]
	c := sugarContexts[sv.Choice("context", len(sugarContexts))]
	src := subst(c, k)
	if sv.Choice("bare", 2) == 1 {
		// the same without the extra parentheses where the grammar allows
		src2 := ""
		for i := 0; i < len(c); i++ {
			if c[i] == '%' && i+1 < len(c) && c[i+1] == 's' {
				src2 += k
				i++
				continue
			}
			src2 += string(c[i])
		}
		src = src2
	}
	var parsed ast.Expr
	cls := sv.Outcome(func() { parsed = e.Parse(src) })
	if cls != "ok" {
		sv.Reach("not-a-program")
		return
	}
	before := Shape(parsed)
	want := Shape(refDesugar(parsed))
	var d1, d2 ast.Expr
	cls = sv.Outcome(func() {
		d1 = trans.Desugar(parsed)
		d2 = trans.Desugar(d1)
	})
	sv.Assert("desugar-does-not-fail", cls == "ok")
	if cls != "ok" {
		return
	}
	sv.Assert("only-core-forms-remain", !hasSugar(d1))
	sv.Assert("exactly-the-call-it-stands-for", Shape(d1) == want)
	sv.Assert("idempotent", Shape(d2) == Shape(d1))
	sv.Assert("original-untouched", Shape(parsed) == before)
	sv.Reach("desugared")
}

// H10_sem: a sugared program and the explicit call it stands for (built as an
// AST, since "+(x, y)" cannot be written as source) have the same type and
// value, or fail alike, on every back end.
func H10_sem() {
	e := NewEngine()
	p := opProgs[sv.Choice("prog", len(opProgs))]
	tys := progEnv(p)
	var parsed ast.Expr
	cls := sv.Outcome(func() { parsed = e.Parse(p.src) })
	sv.Assert("parses", cls == "ok")
	if !hasSugar(parsed) {
		sv.Reach("no-sugar")
		return
	}
	explicit := refDesugar(parsed)
	var e1, e2 ast.Expr
	var t1, t2 *types.Type
	c1 := sv.Outcome(func() { e1, t1 = e.CheckAST(parsed, tys, p.names) })
	c2 := sv.Outcome(func() {
		te := types.NewEnv()
		for _, n := range p.names {
			te.Put(n, tys[n])
		}
		t2 = types.Check(explicit, te.Inherit(e.TyEnv))
		e2 = explicit
	})
	sv.Assert("same-acceptance", (c1 == "ok") == (c2 == "ok"))
	if c1 != "ok" || c2 != "ok" {
		return
	}
	sv.Assert("same-type", RefTypeEq(t1, t2))
	NumPool = nil
	MaxLenQuick = 2
	vals := progVals(p)
	MaxLenQuick = 3
	r1, k1 := runAll(e, e1, vals, p.names)
	r2, k2 := runAll(e, e2, vals, p.names)
	for b := 0; b < NBackends; b++ {
		sv.Assert("fail-alike:"+BackendNames[b], (k1[b] == "ok") == (k2[b] == "ok"))
		if k1[b] == "ok" && k2[b] == "ok" {
			sv.Assert("same-value:"+BackendNames[b], RefSameVal(r1[b], r2[b]))
		}
	}
	sv.Reach("compared")
}

var _ = val.True

var reuseProgs = []string{
	"len(x)", "x.len()", "string(x)", "x.string()", "x == x", "x != x", "max(x, x)", "x + x", "[x][0]", "get([x], 0, x)",
	"if(c, x, x)", "c ? x : x", "isset([\"k\": x], \"k\")", "-x", "!x", "union([x], [x])", "len([x, x])", "x.a", "x[0]", "get(x, 0)",
}

// H10_reuse: a parsed tree can be compiled again. Desugar's result must not
// share nodes with the tree it was given in a way that lets a later phase
// (the checker annotates call nodes in place) leave marks on the parsed tree:
// compiling the same parsed tree a second time, against other types, gives
// what a fresh parse of the same text gives - the sugared spelling and the
// explicit call alike.
func H10_reuse() {
	e := Eng()
	src := reuseProgs[sv.Choice("prog", len(reuseProgs))]
	n := CatalogueSize()
	if reuseFirst {
		n = TC1 // H01_reuse keeps the quick catalogue in both tiers (all ordered pairs of it)
	}
	t1 := Catalogue(sv.Choice("T1", n))
	t2 := Catalogue(sv.Choice("T2", n))
	var parsed, fresh ast.Expr
	cls := sv.Outcome(func() { parsed = e.Parse(src); fresh = e.Parse(src) })
	sv.Assert("parses", cls == "ok")
	before := Shape(parsed)
	names := []string{"x", "c"}
	compile := func(p ast.Expr, t *types.Type) (ast.Expr, *types.Type, string) {
		var ex ast.Expr
		var ty *types.Type
		c := sv.Outcome(func() { ex, ty = e.CheckAST(p, map[string]*types.Type{"x": t, "c": types.Bool}, names) })
		return ex, ty, c
	}
	e1, ty1, c1 := compile(parsed, t1)
	sv.Assert("original-untouched-by-compilation", Shape(parsed) == before)
	// the first compilation's closures, built before the tree is compiled again
	var first [NBackends]compiler.Closure
	var firstCls [NBackends]string
	if c1 == "ok" && reuseFirst {
		for b := 0; b < NBackends; b++ {
			bb := b
			firstCls[b] = sv.Outcome(func() { first[bb] = Backend(bb)(e1, e.Rt) })
		}
	}
	e2, ty2, c2 := compile(parsed, t2)
	ef, tyf, cf := compile(fresh, t2)
	_ = c1
	sv.Assert("second-compilation-accepts-what-a-fresh-parse-accepts", (c2 == "ok") == (cf == "ok"))
	if c1 == "ok" && reuseFirst {
		// ... and evaluated after it: still the program compiled for T1
		var fresh1 ast.Expr
		sv.Outcome(func() { fresh1 = e.Parse(src) })
		ef1, tyf1, cf1 := compile(fresh1, t1)
		sv.Assert("first-compilation-is-that-of-a-fresh-parse", cf1 == "ok" && RefTypeEq(ty1, tyf1))
		if cf1 == "ok" {
			ConcreteTimes = true
			NumPool = []float64{1, 2.5}
			MaxLenQuick = 1
			vals1 := map[string]*val.Val{"x": AnyVal(t1, "x1"), "c": val.True}
			NumPool = nil
			MaxLenQuick = 3
			rf1, kf1 := runAll(e, ef1, vals1, names)
			for b := 0; b < NBackends; b++ {
				if firstCls[b] != "ok" {
					sv.Assert("first-closure-built-alike:"+BackendNames[b], kf1[b] != "ok")
					continue
				}
				r1, k1 := e.Run(first[b], vals1, names)
				sv.Assert("first-closure-unaffected-by-the-second-compilation:"+BackendNames[b], k1 == kf1[b] && (k1 != "ok" || (RefSameVal(r1, rf1[b]) && RefWellTyped(r1, ty1) == "")))
			}
		}
	}
	if c2 != "ok" || cf != "ok" {
		sv.Reach("rejected")
		return
	}
	sv.Assert("second-compilation-infers-the-same-type", RefTypeEq(ty2, tyf))
	ConcreteTimes = true
	NumPool = []float64{1, 2.5}
	MaxLenQuick = 1
	vals := map[string]*val.Val{"x": AnyVal(t2, "x"), "c": val.True}
	NumPool = nil
	MaxLenQuick = 3
	r2, k2 := runAll(e, e2, vals, names)
	rf, kf := runAll(e, ef, vals, names)
	for b := 0; b < NBackends; b++ {
		sv.Assert("fail-alike:"+BackendNames[b], k2[b] == kf[b])
		if k2[b] == "ok" && kf[b] == "ok" {
			sv.Assert("same-value:"+BackendNames[b], RefSameVal(r2[b], rf[b]))
		}
	}
	sv.Reach("compared")
}

// reuseFirst adds the C01 half to H10_reuse (H01_reuse): the closures of the
// first compilation, built before the tree is compiled a second time for
// another environment and evaluated after it, still yield values of the type
// inferred for them.
var reuseFirst bool

// H01_reuse: preservation for a closure whose parsed tree was afterwards
// compiled again against another environment.
func H01_reuse() {
	reuseFirst = true
	H10_reuse()
	reuseFirst = false
}

// H10_ops: `o.f(args)` means exactly `f(o, args)` under every operator table:
// a method call written as the operand of a user operator that binds tighter
// than every built-in one (but looser than member access) desugars to the
// same tree as the explicit call in parentheses.
func H10_ops() {
	pows := []oper.BP{oper.BP_PREFIX, oper.BP_POSTFIX + 0.5, oper.BP_CALL, oper.BP_CALL + 0.5}
	p := pows[sv.Choice("power", len(pows))]
	ops := append([]oper.Operator{}, oper.BuiltIn()...)
	ops = append(ops, oper.Operator{Kind: "#", BP: p, Fixity: oper.PREFIX}, oper.Operator{Kind: "<>", BP: p, Fixity: oper.INFIX_L})
	pairs := [][2]string{
		{"#s.len()", "#(len(s))"},
		{"1 <> s.len()", "1 <> (len(s))"},
		{"#a.b.c(1, 2)", "#(c(a.b, 1, 2))"},
		{"#s.len().g(z)", "#(g(len(s), z))"},
		{"x <> a.f(y) <> b.g()", "(x <> (f(a, y))) <> (g(b))"},
		{"-#s.len()", "-(#(len(s)))"},
	}
	pr := pairs[sv.Choice("pair", len(pairs))]
	var d1, d2 ast.Expr
	cls := sv.Outcome(func() {
		d1 = trans.Desugar(parser.NewParser(ops).Parse(lexer.NewLexer(ops).Lex(pr[0])))
		d2 = trans.Desugar(parser.NewParser(ops).Parse(lexer.NewLexer(ops).Lex(pr[1])))
	})
	sv.Assert("parses-and-desugars", cls == "ok")
	if cls != "ok" {
		return
	}
	if Shape(d1) != Shape(d2) {
		sv.Logf("%s desugars to %s, %s to %s", pr[0], Shape(d1), pr[1], Shape(d2))
	}
	sv.Assert("method-call-is-exactly-the-explicit-call", Shape(d1) == Shape(d2) && !hasSugar(d1))
}
