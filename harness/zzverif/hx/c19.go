//go:build verif

package hx

import (
	"strings"

	"github.com/goghcrow/yae/closure"
	"github.com/goghcrow/yae/debug"
	"github.com/goghcrow/yae/parser/ast"
	"github.com/goghcrow/yae/parser/oper"
	"github.com/goghcrow/yae/types"
	"github.com/goghcrow/yae/val"
	"github.com/goghcrow/yae/zzverif/sv"
)

type dbgEntry struct {
	v   *val.Val
	col int
}

// dbgRef: the reference reading of "which terms are evaluated, in which
// order, and which column is theirs". Values come from evaluating the
// sub-term on its own with the ordinary closure compiler.
type dbgRef struct {
	e    *Engine
	env  func() *val.Env
	out  []dbgEntry
	fail bool
}

func (r *dbgRef) value(x ast.Expr) *val.Val {
	var v *val.Val
	cls := sv.Outcome(func() { v = closure.Compile(x, r.e.Rt)(r.env()) })
	if cls != "ok" {
		r.fail = true
		return nil
	}
	return v
}

func (r *dbgRef) callee(c *ast.CallExpr) *val.FunVal {
	if c.Resolved == "" {
		return nil
	}
	if c.Index < 0 {
		return r.e.Rt.MustGetMonoFun(c.Resolved)
	}
	return r.e.Rt.MustGetPolyFuns(c.Resolved)[c.Index]
}

// add records v at its term's own column, or at the next free column to its
// right when that one is taken (a term evaluated again)
func (r *dbgRef) add(v *val.Val, col int) {
	for {
		taken := false
		for _, e := range r.out {
			if e.col == col {
				taken = true
			}
		}
		if !taken {
			break
		}
		col++
	}
	r.out = append(r.out, dbgEntry{v, col})
}

// walk follows the checked tree x (for overload resolution and laziness) and,
// in parallel, the reference desugaring c of the parsed tree, from which the
// columns are taken (so that a column lost or moved by trans.Desugar shows).
func (r *dbgRef) walk(x, c ast.Expr) {
	if r.fail {
		return
	}
	switch n := x.(type) {
	case *ast.ListExpr:
		for i, el := range n.Elems {
			r.walk(el, c.(*ast.ListExpr).Elems[i])
		}
	case *ast.MapExpr:
		for i, p := range n.Pairs {
			r.walk(p.Key, c.(*ast.MapExpr).Pairs[i].Key)
			r.walk(p.Val, c.(*ast.MapExpr).Pairs[i].Val)
		}
	case *ast.ObjExpr:
		for i, f := range n.Fields {
			r.walk(f.Val, c.(*ast.ObjExpr).Fields[i].Val)
		}
	case *ast.IdentExpr:
		r.add(r.value(n), c.(*ast.IdentExpr).Pos.Col+1)
	case *ast.SubscriptExpr:
		cc := c.(*ast.SubscriptExpr)
		r.walk(n.Var, cc.Var)
		r.walk(n.Idx, cc.Idx)
		r.add(r.value(n), int(cc.DBGCol)+1)
	case *ast.MemberExpr:
		cc := c.(*ast.MemberExpr)
		r.walk(n.Obj, cc.Obj)
		r.add(r.value(n), int(cc.DBGCol)+1)
	case *ast.CallExpr:
		cc := c.(*ast.CallExpr)
		f := r.callee(n)
		arg := func(i int) { r.walk(n.Args[i], cc.Args[i]) }
		switch {
		case f == nil:
			r.walk(n.Callee, cc.Callee)
			for i := range n.Args {
				arg(i)
			}
		case !f.Lazy:
			for i := range n.Args {
				arg(i)
			}
		default:
			name := f.Type.Fun().Name
			switch name {
			case "twice": // host function: forces its operand twice
				arg(0)
				arg(0)
			case "thrice":
				arg(0)
				arg(0)
				arg(0)
			default:
				// built-in lazy functions and lz: condition first, then the selected operand
				arg(0)
				cv := r.value(n.Args[0])
				if cv == nil {
					return
				}
				switch name {
				case "if", "lz":
					if cv.Bool().V {
						arg(1)
					} else {
						arg(2)
					}
				case "&&":
					if cv.Bool().V {
						arg(1)
					}
				case "||":
					if !cv.Bool().V {
						arg(1)
					}
				}
			}
		}
		if v := r.value(n); v != nil {
			r.add(v, int(cc.DBGCol)+1)
		}
	}
}

var dbgSources = []string{
	"a + b * 2",
	"a+b",
	"-a * (b - 1)",
	"if(c, xs[0], ys[1])",
	"c ? xs[0] : ys[1]",
	"c && d || !c",
	"c || xs[5] > 0",
	"o.f + o.g.h",
	"len(s) + len(名前) + len(\"é晓\")",
	"名前 + \"—\" + s",
	"get(m, \"k\", 0) > 1 ? \"yes\" : \"no\"",
	"xs[i] + ys[i]",
	"[a, b][i] + {p: a, q: b}.q",
	"fs[0](a, b)",
	"a.max(b) + xs.len()",
	"if(a > b, if(c, a, b), if(d, b, a))",
	"string([a: s])",
	"xs[7]",
	"m[\"zz\"]",
	"a % (b - b)",
	"   a   +   b   ",
	"union(xs, ys) == xs",
	"o.g.h",
	"max(xs) - min(ys) + abs(0 - a)",
	// terms evaluated more than once (host lazy functions that force an
	// operand again): each value gets a column of its own
	// a short value of many bytes with other values close to its right on the same line
	"z.len() + a", "z + z == s || c", "[z: a][z] + b",
	"twice(a)+-b", "thrice(a)+-b", "twice(a) + twice(b)", "thrice(xs[i])-a", "lz(c, twice(a), b) + a", "twice(twice(a))", "thrice(a+b)*b",
	// values that render on several lines (an object whose field name contains a line break), with other values to their left
	"a > 1 ? ml : ml", "len([ml, ml]) + a", "if(c, ml, ml).v + b", "[ml][i].v * a + b",
	// a registered postfix operator (#: length of a list)
	"a + xs#", "[1, a]#", "xs# + ys#", "-xs# * b",
}

// H19_debug: debug evaluation returns what normal evaluation returns, records
// exactly the evaluated variable / call / member / subscript terms in
// evaluation order with their own columns, and renders without failing.
func H19_debug() {
	e := NewEngine()
	e.Ops = append(e.Ops, oper.Operator{Kind: "#", BP: oper.BP_POSTFIX, Fixity: oper.POSTFIX})
	e.Register(val.Fun(types.Fun("#", []*types.Type{tLN}, tNum), func(args ...*val.Val) *val.Val { return val.Num(float64(len(args[0].List().V))) }))
	e.Register(val.LazyFun(types.Fun("twice", []*types.Type{tNum}, tNum), func(args ...*val.Val) *val.Val {
		return val.Num(args[0].Fun().Call().Num().V + args[0].Fun().Call().Num().V)
	}))
	e.Register(val.LazyFun(types.Fun("thrice", []*types.Type{tNum}, tNum), func(args ...*val.Val) *val.Val {
		return val.Num(args[0].Fun().Call().Num().V + args[0].Fun().Call().Num().V + args[0].Fun().Call().Num().V)
	}))
	e.Register(val.LazyFun(types.Fun("lz", []*types.Type{tBool, tNum, tNum}, tNum), func(args ...*val.Val) *val.Val {
		if args[0].Fun().Call().Bool().V {
			return args[1].Fun().Call()
		}
		return args[2].Fun().Call()
	}))
	src := dbgSources[sv.Choice("src", len(dbgSources))]
	og := ObjT([]string{"h"}, []*types.Type{tNum})
	ot := ObjT([]string{"f", "g"}, []*types.Type{tNum, og})
	ft := types.Fun("f", []*types.Type{tNum, tNum}, tNum)
	mlt := ObjT([]string{"line\nbreak", "v"}, []*types.Type{tStr, tNum})
	tys := map[string]*types.Type{"a": tNum, "b": tNum, "c": tBool, "d": tBool, "i": tNum, "s": tStr, "z": tStr, "名前": tStr,
		"xs": tLN, "ys": tLN, "m": tMSN, "o": ot, "fs": types.List(ft), "ml": mlt}
	names := []string{"a", "b", "c", "d", "i", "s", "z", "名前", "xs", "ys", "m", "o", "fs", "ml"}
	nums := []float64{3, -12.5, 100000}
	a, b := nums[sv.Choice("a", 3)], nums[sv.Choice("b", 3)]
	bv := func(name string) *val.Val {
		if sv.Choice(name, 2) == 1 {
			return val.True
		}
		return val.False
	}
	mkList := func(xs ...float64) *val.Val {
		l := val.List(tLN.List(), len(xs)).List()
		for i, x := range xs {
			l.V[i] = val.Num(x)
		}
		return l.Vl()
	}
	gobj := val.Obj(og.Obj()).Obj()
	gobj.V[0] = val.Num(7)
	oobj := val.Obj(ot.Obj()).Obj()
	oobj.V[0], oobj.V[1] = val.Num(1.5), gobj.Vl()
	m := val.Map(tMSN.Map()).Map()
	m.Put(val.Str("k"), val.Num(2))
	fs := val.List(types.List(ft).List(), 1).List()
	fs.V[0] = val.Fun(ft, func(args ...*val.Val) *val.Val { return val.Num(args[0].Num().V - args[1].Num().V) })
	mlv := val.Obj(mlt.Obj()).Obj()
	mlv.V[0], mlv.V[1] = val.Str("x"), val.Num(9)
	vals := map[string]*val.Val{"ml": mlv.Vl(), "a": val.Num(a), "b": val.Num(b), "c": bv("c"), "d": bv("d"), "i": val.Num(float64(sv.Choice("i", 2))),
		"s": val.Str("héllo"), "z": val.Str("变量"), "名前": val.Str("x\ty"), "xs": mkList(1, 2), "ys": mkList(10, 20.25), "m": m.Vl(), "o": oobj.Vl(), "fs": fs.Vl()}
	mkEnv := func() *val.Env {
		ve := val.NewEnv()
		for _, n := range names {
			ve.Put(n, vals[n])
		}
		return ve.Inherit(e.Rt)
	}
	var parsed ast.Expr
	pcls := sv.Outcome(func() { parsed = e.Parse(src) })
	sv.Assert("parses", pcls == "ok")
	cols := refDesugar(parsed) // columns as the parser recorded them
	var expr ast.Expr
	cls := sv.Outcome(func() { expr, _ = e.CheckAST(parsed, tys, names) })
	sv.Assert("accepted", cls == "ok")

	// normal evaluation
	var want *val.Val
	wcls := sv.Outcome(func() { want = closure.Compile(expr, e.Rt)(mkEnv()) })
	// debug evaluation
	rec := debug.NewRecord()
	var got *val.Val
	gcls := sv.Outcome(func() {
		env := mkEnv()
		env.Dgb = rec
		got = closure.DebugCompile(expr, e.Rt)(env)
	})
	sv.Assert("same-failure-as-normal-evaluation", (wcls == "ok") == (gcls == "ok") && (wcls == "ok" || wcls == gcls))
	if wcls == "ok" && gcls == "ok" {
		sv.Assert("same-value-as-normal-evaluation", RefSameVal(want, got))
	}
	entries := rec.ZZEntries()
	if wcls == "ok" {
		ref := &dbgRef{e: e, env: mkEnv}
		ref.walk(expr, cols)
		sv.Assert("reference-evaluates", !ref.fail)
		same := len(entries) == len(ref.out)
		if same {
			for k := range entries {
				same = same && entries[k].Col == ref.out[k].col && RefSameVal(entries[k].V, ref.out[k].v)
			}
		}
		if !same {
			sv.Logf("%s: recorded %d entries, expected %d", src, len(entries), len(ref.out))
		}
		sv.Assert("records-exactly-the-evaluated-terms-in-order-with-their-columns", same)
	}
	for i := range entries {
		for j := 0; j < i; j++ {
			sv.Assert("no-two-recorded-values-share-a-column", entries[i].Col != entries[j].Col)
		}
	}
	// rendering
	var text string
	rcls := sv.Outcome(func() { text = rec.Render(src) })
	sv.Assert("rendering-never-fails", rcls == "ok")
	if rcls == "ok" {
		lines := strings.Split(text, "\n")
		sv.Assert("first-line-is-the-source", len(lines) > 0 && lines[0] == src)
		for _, en := range entries {
			if en.Col >= 1 {
				// a value that renders on several lines is laid out line by line
				shown := true
				for _, ln := range strings.Split(en.V.String(), "\n") {
					shown = shown && strings.Contains(text, ln)
				}
				sv.Assert("every-recorded-value-is-shown", shown)
				// ... and its first line starts under the column of its own term
				first := []rune(strings.Split(en.V.String(), "\n")[0])
				under := false
				for _, ln := range lines[1:] {
					rs := []rune(ln)
					at := en.Col - 1
					if at+len(first) <= len(rs) && string(rs[at:at+len(first)]) == string(first) {
						under = true
					}
				}
				sv.Assert("every-recorded-value-starts-under-its-own-term", under)
			}
		}
	}
	sv.Reach("debugged")
}
