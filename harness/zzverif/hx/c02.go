//go:build verif

package hx

import (
	"math"

	"github.com/goghcrow/yae/types"
	"github.com/goghcrow/yae/val"
	"github.com/goghcrow/yae/zzverif/sv"
)

// numList builds a list[num] of n symbolic numbers.
func numList(name string, n int) (*val.Val, []float64) {
	l := val.List(types.List(types.Num).List(), n).List()
	xs := make([]float64, n)
	for i := 0; i < n; i++ {
		xs[i] = sv.Float64(name + "[" + itoa(i) + "]")
		l.V[i] = val.Num(xs[i])
	}
	return l.Vl(), xs
}

// compileRun: front end once, then the selector-chosen back end.
func compileRun(e *Engine, src string, tys map[string]*types.Type, vals map[string]*val.Val, names []string) (*val.Val, *types.Type, string) {
	expr, ty, cls := e.Front(src, tys, names)
	sv.Assert("accepted", cls == "ok")
	b := sv.Choice("backend", NBackends)
	var res *val.Val
	class := sv.Outcome(func() {
		cl := Backend(b)(expr, e.Rt)
		ve := val.NewEnv()
		for _, n := range names {
			ve.Put(n, vals[n])
		}
		res = cl(ve.Inherit(e.Rt))
	})
	return res, ty, class
}

// H02_subscript: xs[i] yields xs[trunc(i)] exactly when 0 <= trunc(i) < len
// and otherwise stops with the out-of-range failure; never an internal fault.
func H02_subscript() {
	e := NewEngine()
	n := sv.Choice("len", 4)
	xs, elems := numList("xs", n)
	i := sv.Float64("i")
	tys := map[string]*types.Type{"xs": types.List(types.Num), "i": types.Num}
	vals := map[string]*val.Val{"xs": xs, "i": val.Num(i)}
	res, _, class := compileRun(e, "xs[i]", tys, vals, []string{"xs", "i"})

	ti := math.Trunc(i)
	inRange := sv.And(i == i, ti >= 0, ti < float64(n))
	sv.Assert("no-internal-fault", !InternalFault(class))
	if inRange {
		sv.Reach("in-range")
		sv.Assert("in-range-yields-value", class == "ok")
		if class == "ok" {
			k := sv.ConcreteInt(int(ti), 0, 3)
			sv.Assert("value-is-element", res != nil && res.Type == types.Num && sv.Same(res.Num().V, elems[k]))
		}
	} else {
		sv.Reach("out-of-range")
		sv.Assert("out-of-range-fails", IsOutOfRange(class))
	}
}
