//go:build verif

package hx

import (
	"math"
	"regexp"

	"github.com/goghcrow/yae/compiler"

	"github.com/goghcrow/yae/parser/ast"
	"github.com/goghcrow/yae/types"
	"github.com/goghcrow/yae/val"
	"github.com/goghcrow/yae/zzverif/sv"
)

// numList builds a list[num] of n symbolic numbers.
func numList(name string, n int) (*val.Val, []float64) {
	l := val.List(types.List(types.Num).List(), n).List()
	xs := make([]float64, n)
	for i := 0; i < n; i++ {
		xs[i] = sv.Float64(name + "[" + itoa(i) + "]")
		l.V[i] = val.Num(xs[i])
	}
	return l.Vl(), xs
}

type front struct {
	expr ast.Expr
	ty   *types.Type
	cls  string
}

// Eng is the shared engine with the built-ins registered (built once per
// worker; every path's changes to it are rolled back).
func Eng() *Engine {
	return sv.Setup("engine", func() interface{} { return NewEngine() }).(*Engine)
}

// FrontOnce runs the front end for a concrete source once per worker. It
// must be called before the path builds any value.
func FrontOnce(e *Engine, src string, tys map[string]*types.Type, names []string) (ast.Expr, *types.Type, string) {
	f := sv.Setup("front:"+src, func() interface{} {
		expr, ty, cls := e.Front(src, tys, names)
		return &front{expr, ty, cls}
	}).(*front)
	return f.expr, f.ty, f.cls
}

// TypeKey renders a type with object fields in their own order (a cache key).
func TypeKey(t *types.Type) string {
	if t == nil {
		return "nil"
	}
	switch t.Kind {
	case types.KList:
		return "list[" + TypeKey(t.List().El) + "]"
	case types.KMap:
		return "map[" + TypeKey(t.Map().Key) + "," + TypeKey(t.Map().Val) + "]"
	case types.KMaybe:
		return "maybe[" + TypeKey(t.Maybe().Elem) + "]"
	case types.KObj:
		s := "{"
		for _, f := range t.Obj().Fields {
			s += f.Name + ":" + TypeKey(f.Val) + ";"
		}
		return s + "}"
	case types.KFun:
		s := "fun("
		for _, p := range t.Fun().Param {
			s += TypeKey(p) + ","
		}
		return s + ")" + TypeKey(t.Fun().Return)
	}
	return t.String()
}

// CloneType rebuilds a type from fresh objects (primitive types are the
// package's own singletons). Used inside sv.Setup bodies: what a Setup keeps
// must not point into objects the current path created, because those are
// rolled back at the end of the path.
func CloneType(t *types.Type) *types.Type {
	if t == nil {
		return nil
	}
	switch t.Kind {
	case types.KList:
		return types.List(CloneType(t.List().El))
	case types.KMap:
		return types.Map(CloneType(t.Map().Key), CloneType(t.Map().Val))
	case types.KMaybe:
		return types.Maybe(CloneType(t.Maybe().Elem))
	case types.KObj:
		fs := make([]types.Field, len(t.Obj().Fields))
		for i, f := range t.Obj().Fields {
			fs[i] = types.Field{Name: f.Name, Val: CloneType(f.Val)}
		}
		return types.Obj(fs)
	case types.KNum:
		return types.Num
	case types.KStr:
		return types.Str
	case types.KBool:
		return types.Bool
	case types.KTime:
		return types.Time
	case types.KBot:
		return types.Bottom
	}
	panic("CloneType: " + t.String())
}

type compiled struct {
	front
	cl  [NBackends]compiler.Closure
	ccl [NBackends]string
}

// CompiledOnce runs the front end and all four back ends' compilers for one
// concrete (source, environment types) pair once per worker. Must be called
// before the path builds any value. The key spells the types out with their
// field orders.
func CompiledOnce(e *Engine, src string, tys map[string]*types.Type, names []string) *compiled {
	key := "compiled:" + src
	for _, n := range names {
		key += "|" + n + ":" + TypeKey(tys[n])
	}
	return sv.Setup(key, func() interface{} {
		c := &compiled{}
		own := map[string]*types.Type{}
		for _, n := range names {
			own[n] = CloneType(tys[n])
		}
		c.expr, c.ty, c.cls = e.Front(src, own, names)
		if c.cls != "ok" {
			return c
		}
		for b := 0; b < NBackends; b++ {
			bb := b
			c.ccl[b] = sv.Outcome(func() { c.cl[bb] = Backend(bb)(c.expr, e.Rt) })
		}
		return c
	}).(*compiled)
}

// runCompiled evaluates the four compiled closures on the given bindings.
func runCompiled(e *Engine, c *compiled, vals map[string]*val.Val, names []string) (res [NBackends]*val.Val, cls [NBackends]string) {
	for b := 0; b < NBackends; b++ {
		bb := b
		if c.ccl[b] != "ok" {
			cls[b] = c.ccl[b]
			continue
		}
		cls[b] = sv.Outcome(func() {
			ve := val.NewEnv()
			for _, n := range names {
				ve.Put(n, vals[n])
			}
			res[bb] = c.cl[bb](ve.Inherit(e.Rt))
		})
	}
	return
}

// compileRun: front end, then the selector-chosen back end.
func compileRun(e *Engine, src string, tys map[string]*types.Type, vals map[string]*val.Val, names []string) (*val.Val, *types.Type, string) {
	expr, ty, cls := e.Front(src, tys, names)
	return backendRun(e, expr, ty, cls, vals, names)
}

func backendRun(e *Engine, expr ast.Expr, ty *types.Type, cls string, vals map[string]*val.Val, names []string) (*val.Val, *types.Type, string) {
	sv.Assert("accepted", cls == "ok")
	b := sv.Choice("backend", NBackends)
	var res *val.Val
	var cl compiler.Closure
	run := func() {
		ve := val.NewEnv()
		for _, n := range names {
			ve.Put(n, vals[n])
		}
		res = cl(ve.Inherit(e.Rt))
	}
	class := sv.Outcome(func() {
		cl = Backend(b)(expr, e.Rt)
		run()
	})
	if cl != nil {
		// the same compiled expression invoked again on equal bindings ends
		// the same way (a failure must not leave anything behind that turns
		// the next evaluation into a different failure, or a success)
		first := res
		res = nil
		again := sv.Outcome(run)
		sv.Assert("second-evaluation-ends-like-the-first", again == class)
		if again == "ok" && class == "ok" {
			sv.Assert("second-evaluation-yields-the-same-value", RefSameVal(first, res))
		}
		res = first
	}
	return res, ty, class
}

var c02Patterns = []string{"a+", "^x.*y$", "", "[a-c]{2}", "(", "a(b", "[a-", "*", "(?P<n", "\\", "a{2,1}", "x)"}
var c02Subjects = []string{"", "aa", "xay", "é晓", "(", "a(b"}

// H02_match: match(p, s) stops exactly when p is not a regular expression,
// with that failure and not an internal one, also when the same pattern is
// met again (same closure, recompiled expression, other subject).
func H02_match() {
	e := Eng()
	p1 := c02Patterns[sv.Choice("pattern", len(c02Patterns))]
	p2 := p1
	if sv.Choice("then", 2) == 1 {
		p2 = c02Patterns[sv.Choice("pattern2", len(c02Patterns))]
	}
	s1 := c02Subjects[sv.Choice("subject", len(c02Subjects))]
	s2 := c02Subjects[sv.Choice("subject2", len(c02Subjects))]
	tys := map[string]*types.Type{"p": types.Str, "s": types.Str}
	names := []string{"p", "s"}
	expr, _, cls := FrontOnce(e, "match(p, s)", tys, names)
	sv.Assert("accepted", cls == "ok")
	b := sv.Choice("backend", NBackends)
	recompile := sv.Choice("recompile", 2) == 1
	var cl compiler.Closure
	step := 0
	for _, in := range [][2]string{{p1, s1}, {p2, s2}, {p1, s2}} {
		pat, subj := in[0], in[1]
		var res *val.Val
		class := sv.Outcome(func() {
			if cl == nil || recompile {
				cl = Backend(b)(expr, e.Rt)
			}
			ve := val.NewEnv()
			ve.Put("p", val.Str(pat))
			ve.Put("s", val.Str(subj))
			res = cl(ve.Inherit(e.Rt))
		})
		want, err := regexp.MatchString(pat, subj)
		sv.Assert("no-internal-fault", !InternalFault(class) || hasPrefix(class, "assert:error parsing regexp"))
		if err != nil {
			sv.Reach("invalid-pattern")
			sv.Assert("invalid-pattern-fails-as-documented", hasPrefix(class, "assert:error parsing regexp"))
		} else {
			sv.Reach("valid-pattern")
			sv.Assert("valid-pattern-yields-value", class == "ok" && res != nil && res.Type == types.Bool && res.Bool().V == want)
		}
		step++
	}
}

// H02_subscript: xs[i] yields xs[trunc(i)] exactly when 0 <= trunc(i) < len
// and otherwise stops with the out-of-range failure; never an internal fault.
func H02_subscript() {
	e := Eng()
	n := sv.Choice("len", 4)
	xs, elems := numList("xs", n)
	i := sv.Float64("i")
	tys := map[string]*types.Type{"xs": types.List(types.Num), "i": types.Num}
	vals := map[string]*val.Val{"xs": xs, "i": val.Num(i)}
	res, _, class := compileRun(e, "xs[i]", tys, vals, []string{"xs", "i"})

	ti := math.Trunc(i)
	inRange := sv.And(i == i, ti >= 0, ti < float64(n))
	sv.Assert("no-internal-fault", !InternalFault(class))
	if inRange {
		sv.Reach("in-range")
		sv.Assert("in-range-yields-value", class == "ok")
		if class == "ok" {
			k := sv.ConcreteInt(int(ti), 0, 3)
			sv.Assert("value-is-element", res != nil && res.Type == types.Num && sv.Same(res.Num().V, elems[k]))
		}
	} else {
		sv.Reach("out-of-range")
		sv.Assert("out-of-range-fails", IsOutOfRange(class))
	}
}

func thoroughExtra() int {
	if sv.Thorough() {
		return 1
	}
	return 0
}

func finiteSafe(x float64) bool {
	return sv.And(x == x, x > -9007199254740992, x < 9007199254740992)
}

// H02_mapsel: m[key] yields the entry whose key equals key and otherwise
// stops with the undefined-key failure.
func H02_mapsel() {
	e := Eng()
	n := sv.Choice("len", 2+thoroughExtra())
	mt := types.Map(types.Num, types.Num)
	m := val.Map(mt.Map()).Map()
	ks := make([]float64, n)
	vs := make([]float64, n)
	key := sv.Float64("key")
	sv.Assume(finiteSafe(key))
	for i := 0; i < n; i++ {
		ks[i] = sv.Float64("k" + itoa(i))
		vs[i] = sv.Float64("v" + itoa(i))
		sv.Assume(finiteSafe(ks[i]))
		// keys are identical or clearly apart (C18's precondition)
		sv.Assume(sv.Or(sv.Same(ks[i], key), ks[i]-key > 1, key-ks[i] > 1))
		for j := 0; j < i; j++ {
			sv.Assume(sv.Or(sv.Same(ks[i], ks[j]), ks[i]-ks[j] > 1, ks[j]-ks[i] > 1))
		}
		m.Put(val.Num(ks[i]), val.Num(vs[i]))
	}
	tys := map[string]*types.Type{"m": mt, "key": types.Num}
	vals := map[string]*val.Val{"m": m.Vl(), "key": val.Num(key)}
	res, _, class := compileRun(e, "m[key]", tys, vals, []string{"m", "key"})
	sv.Assert("no-internal-fault", !InternalFault(class))
	present := false
	want := 0.0
	for i := 0; i < n; i++ {
		hit := sv.Same(ks[i], key)
		present = sv.Or(present, hit)
		want = sv.IteF(hit, vs[i], want)
	}
	if present {
		sv.Reach("present")
		sv.Assert("present-yields-value", class == "ok")
		if class == "ok" {
			sv.Assert("value-is-entry", res != nil && res.Type == types.Num && sv.Same(res.Num().V, want))
		}
	} else {
		sv.Reach("absent")
		sv.Assert("absent-fails", IsUndefinedKey(class))
	}
}

// H02_mod: a % b fails exactly when the integer divisor is zero.
func H02_mod() {
	e := Eng()
	a, b := sv.Float64("a"), sv.Float64("b")
	tys := map[string]*types.Type{"a": types.Num, "b": types.Num}
	vals := map[string]*val.Val{"a": val.Num(a), "b": val.Num(b)}
	res, _, class := compileRun(e, "a % b", tys, vals, []string{"a", "b"})
	sv.Assert("no-internal-fault", !InternalFault(class))
	if int64(b) == 0 {
		sv.Reach("zero")
		sv.Assert("zero-divisor-fails", IsDivide(class))
	} else {
		sv.Reach("nonzero")
		sv.Assert("nonzero-divisor-yields-value", class == "ok")
		if class == "ok" {
			sv.Assert("value", res != nil && res.Type == types.Num && sv.Same(res.Num().V, float64(int64(a)%int64(b))))
		}
	}
}

type totalProg struct {
	src   string
	names []string
	tys   []*types.Type
}

var totalProgs = []totalProg{
	{"get(xs, i, d)", []string{"xs", "i", "d"}, []*types.Type{types.List(types.Num), types.Num, types.Num}},
	{"get(m, k, d)", []string{"m", "k", "d"}, []*types.Type{types.Map(types.Str, types.Num), types.Str, types.Num}},
	{"get(n, k, d)", []string{"n", "k", "d"}, []*types.Type{types.Map(types.Num, types.Str), types.Num, types.Str}},
	{"get(o, d)", []string{"o", "d"}, []*types.Type{types.Maybe(types.Num), types.Num}},
	{"isset(m, k)", []string{"m", "k"}, []*types.Type{types.Map(types.Str, types.Num), types.Str}},
	{"isset(n, k)", []string{"n", "k"}, []*types.Type{types.Map(types.Num, types.Str), types.Num}},
	{"len(xs) + len(s) + len(m)", []string{"xs", "s", "m"}, []*types.Type{types.List(types.Num), types.Str, types.Map(types.Str, types.Num)}},
	{"string(a) + string(xs) + string(p)", []string{"a", "xs", "p"}, []*types.Type{types.Num, types.List(types.Num), TObjAB}},
	{"string(m) + string(o) + string(t) + string(c)", []string{"m", "o", "t", "c"}, []*types.Type{types.Map(types.Str, types.Num), types.Maybe(types.Num), types.Time, types.Bool}},
	{"[a < b, a <= b, a > b, a >= b, a == b, a != b]", []string{"a", "b"}, []*types.Type{types.Num, types.Num}},
	{"[a + b, a - b, a * b, a / b, -a, +a, a ^ b]", []string{"a", "b"}, []*types.Type{types.Num, types.Num}},
	{"[abs(a), ceil(a), floor(a), round(a), max(a, b), min(a, b), max(xs), min(xs)]", []string{"a", "b", "xs"}, []*types.Type{types.Num, types.Num, types.List(types.Num)}},
	{"[s == u, s != u, t == v, t != v, t < v, t <= v, t > v, t >= v, c == d, c != d, !c, c && d, c || d]", []string{"s", "u", "t", "v", "c", "d"}, []*types.Type{types.Str, types.Str, types.Time, types.Time, types.Bool, types.Bool}},
	{"[xs == ys, xs != ys, m == n, m != n]", []string{"xs", "ys", "m", "n"}, []*types.Type{types.List(types.Num), types.List(types.Num), types.Map(types.Str, types.Num), types.Map(types.Str, types.Num)}},
	{"[len(union(xs, ys)), len(intersect(xs, ys)), len(diff(xs, ys))]", []string{"xs", "ys"}, []*types.Type{types.List(types.Num), types.List(types.Num)}},
	{"s + u", []string{"s", "u"}, []*types.Type{types.Str, types.Str}},
	// string literals spelled like the names used next to them (a compiler
	// that pools constants by text must keep names and literals apart)
	{"s + \"s\" + u + \"u\"", []string{"s", "u"}, []*types.Type{types.Str, types.Str}},
	{"get(m, \"m\", d) + get(m, \"k\", d) + len(\"d\")", []string{"m", "k", "d"}, []*types.Type{types.Map(types.Str, types.Num), types.Str, types.Num}},
	{"if(s == \"s\", p.a, len(\"a\")) + len(p.b + \"b\")", []string{"s", "p"}, []*types.Type{types.Str, TObjAB}},
	{"if(c, a, b) + (c ? a : b)", []string{"c", "a", "b"}, []*types.Type{types.Bool, types.Num, types.Num}},
	// a partial operation on literals in a position that is never selected:
	// the program is total (a compiler that evaluates constants ahead of time
	// must not fail for it, at compile time or later)
	{"if(false, 1 % 0, a) + (true ? b : 7 % 0.5)", []string{"a", "b"}, []*types.Type{types.Num, types.Num}},
	{"[false && 10 % 0 == a, true || 3 % (2 - 2) > b, c && !c && [1][5] > 0]", []string{"a", "b", "c"}, []*types.Type{types.Num, types.Num, types.Bool}},
	{"if(c || !c, a, [\"k\": 1][\"z\"]) + if(c && !c, 5 % 0, b)", []string{"a", "b", "c"}, []*types.Type{types.Num, types.Num, types.Bool}},
}

// H02_total: total operations never fail, whatever their operands.
func H02_total() {
	e := Eng()
	p := totalProgs[sv.Choice("prog", len(totalProgs))]
	tys := map[string]*types.Type{}
	for i, n := range p.names {
		tys[n] = p.tys[i]
	}
	expr, ty, cls := FrontOnce(e, p.src, tys, p.names)
	vals := map[string]*val.Val{}
	MaxLenQuick = 2
	for i, n := range p.names {
		vals[n] = AnyVal(p.tys[i], n)
	}
	MaxLenQuick = 3
	res, ty, class := backendRun(e, expr, ty, cls, vals, p.names)
	sv.Assert("total", class == "ok")
	if class == "ok" {
		sv.Assert("well-typed-result", RefWellTyped(res, ty) == "")
	}
	sv.Reach("ran")
}
