//go:build verif

package hx

import (
	"time"
	"github.com/goghcrow/yae/parser/ast"
	"github.com/goghcrow/yae/types"
	"github.com/goghcrow/yae/val"
	"github.com/goghcrow/yae/zzverif/sv"
)

// runAll evaluates one checked expression on every back end, in one path.
func runAll(e *Engine, expr ast.Expr, vals map[string]*val.Val, names []string) (res [NBackends]*val.Val, cls [NBackends]string) {
	for b := 0; b < NBackends; b++ {
		bb := b
		cls[b] = sv.Outcome(func() {
			cl := Backend(bb)(expr, e.Rt)
			ve := val.NewEnv()
			for _, n := range names {
				ve.Put(n, vals[n])
			}
			res[bb] = cl(ve.Inherit(e.Rt))
		})
	}
	return
}

// agree asserts the C03 relation between the back ends; the closure compiler
// is the reference the others are compared with.
func agree(res [NBackends]*val.Val, cls [NBackends]string) {
	const ref = 2
	for b := 0; b < NBackends; b++ {
		if b == ref {
			continue
		}
		sv.Assert("all-fail-or-all-succeed:"+BackendNames[b], (cls[ref] == "ok") == (cls[b] == "ok"))
		if cls[ref] == "ok" && cls[b] == "ok" {
			sv.Assert("equal-values:"+BackendNames[b], RefSameVal(res[ref], res[b]))
		}
	}
	for b := 0; b < NBackends; b++ {
		sv.Assert("no-internal-fault:"+BackendNames[b], !InternalFault(cls[b]))
	}
}

var (
	tNum, tStr, tBool, tTime = types.Num, types.Str, types.Bool, types.Time
	tLN                      = types.List(types.Num)
	tMSN                     = types.Map(types.Str, types.Num)
	tMNS                     = types.Map(types.Num, types.Str)
	tON                      = types.Maybe(types.Num)
)

// opProgs: one program per built-in operator / function overload (every entry
// of vm's intrinsic tables and every remaining built-in), over identifier
// operands.
var opProgs = []totalProg{
	{"a + b", []string{"a", "b"}, []*types.Type{tNum, tNum}},
	{"+a", []string{"a"}, []*types.Type{tNum}},
	{"s + u", []string{"s", "u"}, []*types.Type{tStr, tStr}},
	{"-a", []string{"a"}, []*types.Type{tNum}},
	{"a - b", []string{"a", "b"}, []*types.Type{tNum, tNum}},
	{"a * b", []string{"a", "b"}, []*types.Type{tNum, tNum}},
	{"a / b", []string{"a", "b"}, []*types.Type{tNum, tNum}},
	{"a % b", []string{"a", "b"}, []*types.Type{tNum, tNum}},
	{"a ^ b", []string{"a", "b"}, []*types.Type{tNum, tNum}},
	{"a == b", []string{"a", "b"}, []*types.Type{tNum, tNum}},
	{"a != b", []string{"a", "b"}, []*types.Type{tNum, tNum}},
	{"a < b", []string{"a", "b"}, []*types.Type{tNum, tNum}},
	{"a <= b", []string{"a", "b"}, []*types.Type{tNum, tNum}},
	{"a > b", []string{"a", "b"}, []*types.Type{tNum, tNum}},
	{"a >= b", []string{"a", "b"}, []*types.Type{tNum, tNum}},
	{"c == d", []string{"c", "d"}, []*types.Type{tBool, tBool}},
	{"c != d", []string{"c", "d"}, []*types.Type{tBool, tBool}},
	{"s == u", []string{"s", "u"}, []*types.Type{tStr, tStr}},
	{"s != u", []string{"s", "u"}, []*types.Type{tStr, tStr}},
	{"t == v", []string{"t", "v"}, []*types.Type{tTime, tTime}},
	{"t != v", []string{"t", "v"}, []*types.Type{tTime, tTime}},
	{"t < v", []string{"t", "v"}, []*types.Type{tTime, tTime}},
	{"t <= v", []string{"t", "v"}, []*types.Type{tTime, tTime}},
	{"t > v", []string{"t", "v"}, []*types.Type{tTime, tTime}},
	{"t >= v", []string{"t", "v"}, []*types.Type{tTime, tTime}},
	{"xs == ys", []string{"xs", "ys"}, []*types.Type{tLN, tLN}},
	{"xs != ys", []string{"xs", "ys"}, []*types.Type{tLN, tLN}},
	{"m == n", []string{"m", "n"}, []*types.Type{tMSN, tMSN}},
	{"m != n", []string{"m", "n"}, []*types.Type{tMSN, tMSN}},
	{"min(a, b)", []string{"a", "b"}, []*types.Type{tNum, tNum}},
	{"max(a, b)", []string{"a", "b"}, []*types.Type{tNum, tNum}},
	{"min(xs)", []string{"xs"}, []*types.Type{tLN}},
	{"max(xs)", []string{"xs"}, []*types.Type{tLN}},
	{"abs(a)", []string{"a"}, []*types.Type{tNum}},
	{"ceil(a)", []string{"a"}, []*types.Type{tNum}},
	{"floor(a)", []string{"a"}, []*types.Type{tNum}},
	{"round(a)", []string{"a"}, []*types.Type{tNum}},
	{"len(s)", []string{"s"}, []*types.Type{tStr}},
	{"len(xs)", []string{"xs"}, []*types.Type{tLN}},
	{"len(m)", []string{"m"}, []*types.Type{tMSN}},
	{"get(o, d)", []string{"o", "d"}, []*types.Type{tON, tNum}},
	{"get(xs, i, d)", []string{"xs", "i", "d"}, []*types.Type{tLN, tNum, tNum}},
	{"get(m, s, d)", []string{"m", "s", "d"}, []*types.Type{tMSN, tStr, tNum}},
	{"isset(m, s)", []string{"m", "s"}, []*types.Type{tMSN, tStr}},
	{"if(c, a, b)", []string{"c", "a", "b"}, []*types.Type{tBool, tNum, tNum}},
	{"c ? a : b", []string{"c", "a", "b"}, []*types.Type{tBool, tNum, tNum}},
	{"c && d", []string{"c", "d"}, []*types.Type{tBool, tBool}},
	{"c || d", []string{"c", "d"}, []*types.Type{tBool, tBool}},
	{"!c", []string{"c"}, []*types.Type{tBool}},
	{"string(a)", []string{"a"}, []*types.Type{tNum}},
	{"string(xs)", []string{"xs"}, []*types.Type{tLN}},
	{"union(xs, ys)", []string{"xs", "ys"}, []*types.Type{tLN, tLN}},
	{"intersect(xs, ys)", []string{"xs", "ys"}, []*types.Type{tLN, tLN}},
	{"diff(xs, ys)", []string{"xs", "ys"}, []*types.Type{tLN, tLN}},
	{"print(a)", []string{"a"}, []*types.Type{tNum}},
	{"strtotime(s)", []string{"s"}, []*types.Type{tStr}},
	{"match(s, u)", []string{"s", "u"}, []*types.Type{tStr, tStr}},
	{"t - v", []string{"t", "v"}, []*types.Type{tTime, tTime}},
	{"xs[i]", []string{"xs", "i"}, []*types.Type{tLN, tNum}},
	{"m[s]", []string{"m", "s"}, []*types.Type{tMSN, tStr}},
	{"p.a", []string{"p"}, []*types.Type{TObjAB}},
	{"[a, b]", []string{"a", "b"}, []*types.Type{tNum, tNum}},
	{"[s: a, u: b]", []string{"s", "u", "a", "b"}, []*types.Type{tStr, tStr, tNum, tNum}},
	{"{x: a, y: s}", []string{"a", "s"}, []*types.Type{tNum, tStr}},
	// compound forms a peephole-optimising compiler rewrites (the rewritings
	// are identities on ordinary numbers only: NaN, infinities and -0 tell)
	{"!(a < b)", []string{"a", "b"}, []*types.Type{tNum, tNum}},
	{"!(a <= b)", []string{"a", "b"}, []*types.Type{tNum, tNum}},
	{"!(a > b)", []string{"a", "b"}, []*types.Type{tNum, tNum}},
	{"!(a >= b)", []string{"a", "b"}, []*types.Type{tNum, tNum}},
	{"!(a == b)", []string{"a", "b"}, []*types.Type{tNum, tNum}},
	{"!(a != b)", []string{"a", "b"}, []*types.Type{tNum, tNum}},
	{"-(a - b)", []string{"a", "b"}, []*types.Type{tNum, tNum}},
	{"-(-a) + b", []string{"a", "b"}, []*types.Type{tNum, tNum}},
	{"a + 0 == a || b > 0", []string{"a", "b"}, []*types.Type{tNum, tNum}},
	{"a * 1 - b * 0", []string{"a", "b"}, []*types.Type{tNum, tNum}},
	{"a - a + b", []string{"a", "b"}, []*types.Type{tNum, tNum}},
	{"0 * a + b", []string{"a", "b"}, []*types.Type{tNum, tNum}},
	{"a == a && b == b", []string{"a", "b"}, []*types.Type{tNum, tNum}},
	{"a / a + b / b", []string{"a", "b"}, []*types.Type{tNum, tNum}},
	{"if(a < b, a, b) == min(a, b)", []string{"a", "b"}, []*types.Type{tNum, tNum}},
	{"!(a < b) == (a >= b)", []string{"a", "b"}, []*types.Type{tNum, tNum}},
	{"!(c && d)", []string{"c", "d"}, []*types.Type{tBool, tBool}},
	{"!(!c) || !(c == d)", []string{"c", "d"}, []*types.Type{tBool, tBool}},
	{"!(s == u) && !(s != u)", []string{"s", "u"}, []*types.Type{tStr, tStr}},
	{"!(t < v) || !(t == v)", []string{"t", "v"}, []*types.Type{tTime, tTime}},
	{"!(xs == ys)", []string{"xs", "ys"}, []*types.Type{tLN, tLN}},
	// a string literal with the text of an identifier / field name
	{"s == \"s\"", []string{"s"}, []*types.Type{tStr}},
	{"{a: \"a\", b: \"p\"}.a + p.b + m[\"m\"] == p.b", []string{"p", "m"}, []*types.Type{TObjAB, types.Map(tStr, tStr)}},
}

func progEnv(p totalProg) map[string]*types.Type {
	tys := map[string]*types.Type{}
	for i, n := range p.names {
		tys[n] = p.tys[i]
	}
	return tys
}

// concreteTimes: time operands of "t - v" stay concrete (Duration.Seconds
// divides by 10^9, which no available solver decides on 64-bit words).
func progVals(p totalProg) map[string]*val.Val {
	vals := map[string]*val.Val{}
	for i, n := range p.names {
		if p.src == "t - v" {
			// host instants carry nanoseconds: two of the six have a sub-second part
			secs := [...]int64{0, 1, 1700000000, -1, 1700000000, 1}
			nsec := [...]int64{0, 0, 0, 0, 500000000, 900000000}
			k := sv.Choice(n+".time", len(secs))
			vals[n] = val.Time(time.Unix(secs[k], nsec[k]))
			continue
		}
		vals[n] = AnyVal(p.tys[i], n)
	}
	return vals
}

// H03_ops: every built-in, all four back ends, arbitrary operands.
func H03_ops() {
	e := Eng()
	p := opProgs[sv.Choice("prog", len(opProgs))]
	expr, _, cls := FrontOnce(e, p.src, progEnv(p), p.names)
	sv.Assert("accepted", cls == "ok")
	vals := progVals(p)
	res, c := runAll(e, expr, vals, p.names)
	agree(res, c)
	sv.Reach("compared")
}

// H03_dynamic: calling a function-typed value (strict or lazy) gives the same
// result on every back end.
func H03_dynamic() {
	e := NewEngine()
	ft := types.Fun("f", []*types.Type{tBool, tNum, tNum}, tNum)
	lazy := sv.Choice("callee-lazy", 2) == 1
	sv.Region("callee-is-a-lazy-function-value", lazy)
	var f *val.Val
	if lazy {
		f = val.LazyFun(ft, func(args ...*val.Val) *val.Val {
			if args[0].Fun().Call().Bool().V {
				return args[1].Fun().Call()
			}
			return args[2].Fun().Call()
		})
	} else {
		f = val.Fun(ft, func(args ...*val.Val) *val.Val {
			if args[0].Bool().V {
				return args[1]
			}
			return args[2]
		})
	}
	fs := val.List(types.List(ft).List(), 1).List()
	fs.V[0] = f
	srcs := []string{"fs[0](c, a, b)", "fs[0](c && d, a + 1, b)", "get(fs, 0, fs[0])(c, a, b)", "if(d, fs[0], fs[0])(c, a, b)"}
	src := srcs[sv.Choice("prog", len(srcs))]
	tys := map[string]*types.Type{"fs": types.List(ft), "a": tNum, "b": tNum, "c": tBool, "d": tBool}
	names := []string{"fs", "a", "b", "c", "d"}
	expr, _, cls := e.Front(src, tys, names)
	sv.Assert("accepted", cls == "ok")
	a, b := sv.Float64("a"), sv.Float64("b")
	bv := func(x bool) *val.Val {
		if x {
			return val.True
		}
		return val.False
	}
	vals := map[string]*val.Val{"fs": fs.Vl(), "a": val.Num(a), "b": val.Num(b), "c": bv(sv.Bool("c")), "d": bv(sv.Bool("d"))}
	res, c := runAll(e, expr, vals, names)
	agree(res, c)
	sv.Reach("compared")
}

// H03_calls: the host functions a program invokes are invoked in the same
// order with the same arguments on every back end (the programs of C06,
// which call the tracing function t(i, v) in every operand position; here
// the back ends are compared with each other, C06 compares each with the
// order the language dictates).
func H03_calls() {
	e := NewEngine()
	tr := &tracer{}
	tr.register(e)
	p := lazyProgs[sv.Choice("prog", len(lazyProgs))]
	c, d := sv.Bool("c"), sv.Bool("d")
	a, b := sv.Float64("a"), sv.Float64("b")
	f3t := types.Fun("f3", []*types.Type{types.Num, types.Num, types.Num}, types.Num)
	fs := val.List(types.List(f3t).List(), 2).List()
	fs.V[0] = val.Fun(f3t, func(args ...*val.Val) *val.Val { return args[2] })
	fs.V[1] = val.Fun(f3t, func(args ...*val.Val) *val.Val { return args[0] })
	tys := map[string]*types.Type{"a": types.Num, "b": types.Num, "c": types.Bool, "d": types.Bool, "fs": types.List(f3t)}
	names := []string{"a", "b", "c", "d", "fs"}
	expr, _, cls := e.Front(p.src, tys, names)
	sv.Assert("accepted", cls == "ok")
	bv := func(x bool) *val.Val {
		if x {
			return val.True
		}
		return val.False
	}
	vals := map[string]*val.Val{"a": val.Num(a), "b": val.Num(b), "c": bv(c), "d": bv(d), "fs": fs.Vl()}
	var logs [NBackends][]int
	var args [NBackends][]*val.Val
	var res [NBackends]*val.Val
	var cl [NBackends]string
	for bk := 0; bk < NBackends; bk++ {
		tr.log, tr.args = nil, nil
		bb := bk
		cl[bk] = sv.Outcome(func() {
			f := Backend(bb)(expr, e.Rt)
			ve := val.NewEnv()
			for _, n := range names {
				ve.Put(n, vals[n])
			}
			res[bb] = f(ve.Inherit(e.Rt))
		})
		logs[bk], args[bk] = tr.log, tr.args
	}
	const ref = 2
	for bk := 0; bk < NBackends; bk++ {
		if bk == ref {
			continue
		}
		same := len(logs[bk]) == len(logs[ref])
		if same {
			for k := range logs[ref] {
				same = sv.And(same, logs[bk][k] == logs[ref][k], RefSameVal(args[bk][k], args[ref][k]))
			}
		}
		sv.Assert("same-host-calls-in-the-same-order-with-the-same-arguments:"+BackendNames[bk], same)
		sv.Assert("all-fail-or-all-succeed:"+BackendNames[bk], (cl[ref] == "ok") == (cl[bk] == "ok"))
		if cl[ref] == "ok" && cl[bk] == "ok" {
			sv.Assert("equal-values:"+BackendNames[bk], RefSameVal(res[ref], res[bk]))
		}
	}
	for bk := 0; bk < NBackends; bk++ {
		// the failing host functions boomn/boomb stop a program with their own panic
		sv.Assert("no-internal-fault:"+BackendNames[bk], cl[bk] == "panic:boom" || !InternalFault(cl[bk]))
	}
	sv.Reach("compared")
}

// H03_host: strict host functions that keep what they are handed. pair(a, b)
// returns a list whose backing slice IS the argument slice it received; keep(x)
// remembers its argument and returns it on the next call. A back end that
// lends its own working storage to a host function shows here as a value
// that changes after the call returned.
func H03_host() {
	e := NewEngine()
	lt := types.List(types.Num)
	pairV := val.Fun(types.Fun("pair", []*types.Type{types.Num, types.Num}, lt), func(args ...*val.Val) *val.Val {
		l := val.List(lt.List(), 0).List()
		l.V = args // retained
		return l.Vl()
	})
	e.Register(pairV)
	e.Register(val.Fun(types.Fun("triple", []*types.Type{types.Num, types.Num, types.Num}, lt), func(args ...*val.Val) *val.Val {
		l := val.List(lt.List(), 0).List()
		l.V = args[:3]
		return l.Vl()
	}))
	srcs := []string{
		"pair(a, b)[1]", "pair(a, b)", "1 + 2 * pair(a, b + 1)[1]", "[pair(a, b), pair(b, a)]", "pair(a, b)[0] + pair(b, a)[0] * 2",
		"triple(a, b, a + b)[2] - a", "fs[0](a, b)[1] + a", "if(c, pair(a, b), pair(b, a))[0] + b", "string(pair(a, b)) + string(a)",
		"{p: pair(a, b), q: triple(b, a, 1)}.p[1] + len(\"x\")",
	}
	src := srcs[sv.Choice("prog", len(srcs))]
	ft := types.Fun("f", []*types.Type{types.Num, types.Num}, lt)
	fs := val.List(types.List(ft).List(), 1).List()
	fs.V[0] = pairV
	tys := map[string]*types.Type{"a": tNum, "b": tNum, "c": tBool, "fs": types.List(ft)}
	names := []string{"a", "b", "c", "fs"}
	expr, _, cls := e.Front(src, tys, names)
	sv.Assert("accepted", cls == "ok")
	a, b := sv.Float64("a"), sv.Float64("b")
	cv := val.False
	if sv.Bool("c") {
		cv = val.True
	}
	vals := map[string]*val.Val{"a": val.Num(a), "b": val.Num(b), "c": cv, "fs": fs.Vl()}
	res, c := runAll(e, expr, vals, names)
	agree(res, c)
	sv.Reach("compared")
}

// H03_bytes: arbitrary source text that happens to compile. A prefix and one
// or two arbitrary positions (symbolic bytes) go through the real lexer,
// parser, desugarer and checker; whatever is accepted is evaluated on all
// four back ends for an arbitrary operand: equal values or all fail.
func H03_bytes() {
	e := Eng()
	pre := []string{"a", "a ", "-", "[a", "a == ", "a ? b : ", "len(xs) ", "xs["}[sv.Choice("prefix", 8)]
	n := 1
	if sv.Thorough() || pre == "a" || pre == "a " {
		n = 1 + sv.Choice("len", 2)
	}
	src := pre + anyInput(n)
	tys := map[string]*types.Type{"a": tNum, "b": tNum, "xs": tLN}
	names := []string{"a", "b", "xs"}
	expr, _, cls := e.Front(src, tys, names)
	if cls != "ok" {
		sv.Reach("rejected")
		sv.Assert("rejection-is-an-error-not-a-fault", hasPrefix(cls, "assert:"))
		return
	}
	sv.Reach("accepted")
	xs := val.List(tLN.List(), 2).List()
	xs.V[0], xs.V[1] = val.Num(1), val.Num(2.5)
	vals := map[string]*val.Val{"a": val.Num(sv.Float64("a")), "b": val.Num(sv.Float64("b")), "xs": xs.Vl()}
	res, c := runAll(e, expr, vals, names)
	agree(res, c)
}
