//go:build verif

package hx

import (
	"github.com/goghcrow/yae/parser"
	"github.com/goghcrow/yae/parser/ast"
	"github.com/goghcrow/yae/parser/lexer"
	"github.com/goghcrow/yae/parser/oper"
	"github.com/goghcrow/yae/parser/token"
	"github.com/goghcrow/yae/zzverif/sv"
)

// Shape renders a parsed tree fully parenthesised (groups transparent).
func Shape(e ast.Expr) string {
	switch x := e.(type) {
	case *ast.IdentExpr:
		return x.Name
	case *ast.NumExpr:
		return x.Text
	case *ast.StrExpr:
		return x.Text
	case *ast.BoolExpr:
		return x.Text
	case *ast.TimeExpr:
		return x.Text
	case *ast.GroupExpr:
		return Shape(x.SubExpr)
	case *ast.BinaryExpr:
		return "(" + Shape(x.LHS) + " " + x.Name + " " + Shape(x.RHS) + ")"
	case *ast.UnaryExpr:
		if x.Prefix {
			return "(" + x.Name + " " + Shape(x.LHS) + ")"
		}
		return "(" + Shape(x.LHS) + " " + x.Name + ")"
	case *ast.TenaryExpr:
		return "(" + Shape(x.Left) + " ? " + Shape(x.Mid) + " : " + Shape(x.Right) + ")"
	case *ast.CallExpr:
		s := Shape(x.Callee) + "("
		for i, a := range x.Args {
			if i > 0 {
				s += ", "
			}
			s += Shape(a)
		}
		return s + ")"
	case *ast.SubscriptExpr:
		return Shape(x.Var) + "[" + Shape(x.Idx) + "]"
	case *ast.MemberExpr:
		return Shape(x.Obj) + "." + x.Field.Name
	case *ast.ListExpr:
		s := "["
		for i, a := range x.Elems {
			if i > 0 {
				s += ", "
			}
			s += Shape(a)
		}
		return s + "]"
	case *ast.MapExpr:
		s := "[:"
		for i, p := range x.Pairs {
			if i > 0 {
				s += ", "
			}
			s += Shape(p.Key) + ": " + Shape(p.Val)
		}
		return s + "]"
	case *ast.ObjExpr:
		s := "{"
		for i, f := range x.Fields {
			if i > 0 {
				s += ", "
			}
			s += f.Name + ": " + Shape(f.Val)
		}
		return s + "}"
	}
	return "?"
}

// parseWith lexes and parses src with the given operator table.
func parseWith(ops []oper.Operator, src string) (shape string, class string) {
	class = sv.Outcome(func() {
		toks := lexer.NewLexer(ops).Lex(src)
		shape = Shape(parser.NewParser(ops).Parse(toks))
	})
	return
}

func isSyntaxError(class string) bool { return hasPrefix(class, "assert:syntax error") }

var fixNames = [...]string{"L", "R", "N"}

func fixityOf(k int) oper.Fixity {
	switch k {
	case 0:
		return oper.INFIX_L
	case 1:
		return oper.INFIX_R
	default:
		return oper.INFIX_N
	}
}

func power(name string) oper.BP {
	p := sv.Float32(name)
	sv.Assume(sv.And(p > 0, p < 1000))
	return oper.BP(p)
}

// H08_two: two user operators with arbitrary (symbolic) binding powers and
// any infix fixity: "a @ b # c" parses to the tree the declarations dictate.
func H08_two() {
	f1, f2 := sv.Choice("fix@", 3), sv.Choice("fix#", 3)
	p1, p2 := power("bp@"), power("bp#")
	ops := []oper.Operator{{Kind: "@", BP: p1, Fixity: fixityOf(f1)}, {Kind: "#", BP: p2, Fixity: fixityOf(f2)}}
	shape, class := parseWith(ops, "a @ b # c")
	switch {
	case p1 > p2:
		sv.Reach("first-binds-tighter")
		sv.Assert("tighter-left-operator-groups-first", class == "ok" && shape == "((a @ b) # c)")
	case p2 > p1:
		sv.Reach("second-binds-tighter")
		sv.Assert("tighter-right-operator-groups-first", class == "ok" && shape == "(a @ (b # c))")
	default:
		// equal powers: dictated only when both are left- or both right-associative
		if f1 == 0 && f2 == 0 {
			sv.Assert("equal-power-left-assoc", class == "ok" && shape == "((a @ b) # c)")
		} else if f1 == 1 && f2 == 1 {
			sv.Assert("equal-power-right-assoc", class == "ok" && shape == "(a @ (b # c))")
		}
	}
	sv.Assert("never-an-internal-fault", class == "ok" || isSyntaxError(class))
}

// H08_self: an operator chained with itself follows its associativity; a
// non-associative operator can never be chained, whatever follows or
// precedes the chain.
func H08_self() {
	f1 := sv.Choice("fix@", 3)
	p1, p2 := power("bp@"), power("bp#")
	ops := []oper.Operator{{Kind: "@", BP: p1, Fixity: fixityOf(f1)}, {Kind: "#", BP: p2, Fixity: oper.INFIX_L}}
	ctx := sv.Choice("context", 6)
	src := [...]string{"a @ b @ c", "a @ b @ c # d", "d # a @ b @ c", "(a @ b @ c)", "p => a @ b @ c # d", "p => a @ b @ c"}[ctx]
	if ctx >= 4 {
		// '=>' is right-associative and looser than both: the chain sits in
		// its right operand, where '#' may follow it
		p3 := power("bp=>")
		sv.Assume(p3 < p1 && p3 < p2)
		ops = append(ops, oper.Operator{Kind: "=>", BP: p3, Fixity: oper.INFIX_R})
	}
	shape, class := parseWith(ops, src)
	switch f1 {
	case 2:
		sv.Assert("non-associative-never-chains", isSyntaxError(class))
	case 0:
		if ctx == 0 || ctx == 3 {
			sv.Assert("left-assoc-chain", class == "ok" && shape == "((a @ b) @ c)")
		}
	case 1:
		if ctx == 0 || ctx == 3 {
			sv.Assert("right-assoc-chain", class == "ok" && shape == "(a @ (b @ c))")
		}
	}
	if ctx == 4 && f1 != 2 && p1 > p2 {
		want := "(p => (((a @ b) @ c) # d))"
		if f1 == 1 {
			want = "(p => ((a @ (b @ c)) # d))"
		}
		sv.Assert("chain-inside-a-right-operand-then-looser-operator", class == "ok" && shape == want)
	}
	if ctx == 1 && f1 != 2 && p1 > p2 {
		want := "(((a @ b) @ c) # d)"
		if f1 == 1 {
			want = "((a @ (b @ c)) # d)"
		}
		sv.Assert("chain-then-looser-operator", class == "ok" && shape == want)
	}
	if ctx == 2 && f1 != 2 && p1 > p2 {
		want := "(d # ((a @ b) @ c))"
		if f1 == 1 {
			want = "(d # (a @ (b @ c)))"
		}
		sv.Assert("looser-operator-then-chain", class == "ok" && shape == want)
	}
	sv.Assert("never-an-internal-fault", class == "ok" || isSyntaxError(class))
}

// H08_plain: a valid two-operand expression is accepted for every binding
// power (also below 1), alone and beside the built-in table.
func H08_plain() {
	f1 := sv.Choice("fix@", 3)
	p1 := power("bp@")
	ops := []oper.Operator{{Kind: "@", BP: p1, Fixity: fixityOf(f1)}}
	if sv.Choice("with-builtins", 2) == 1 {
		ops = append(ops, oper.BuiltIn()...)
	}
	shape, class := parseWith(ops, "a @ b")
	sv.Assert("binary-application-accepted", class == "ok" && shape == "(a @ b)")
	shape, class = parseWith(ops, "(a @ b) @ (c)")
	sv.Assert("parenthesised-operands-accepted", class == "ok" && shape == "((a @ b) @ c)")
}

// H08_prefix: prefix / postfix operators of arbitrary power against an infix
// operator: the unary operator applies to the operand the powers dictate.
func H08_prefix() {
	pu, pb := power("bp~"), power("bp@")
	post := sv.Choice("postfix", 2) == 1
	fx := oper.PREFIX
	src := "~ a @ b"
	if post {
		fx = oper.POSTFIX
		src = "a @ b ~"
	}
	ops := []oper.Operator{{Kind: "~", BP: pu, Fixity: fx}, {Kind: "@", BP: pb, Fixity: oper.INFIX_L}}
	shape, class := parseWith(ops, src)
	sv.Assume(pu != pb)
	if !post {
		if pu > pb {
			sv.Assert("tight-prefix-takes-one-operand", class == "ok" && shape == "((~ a) @ b)")
		} else {
			sv.Assert("loose-prefix-takes-the-application", class == "ok" && shape == "(~ (a @ b))")
		}
	} else {
		if pu > pb {
			sv.Assert("tight-postfix-takes-one-operand", class == "ok" && shape == "(a @ (b ~))")
		} else {
			sv.Assert("loose-postfix-takes-the-application", class == "ok" && shape == "((a @ b) ~)")
		}
	}
}

type shapeCase struct{ src, want string }

// documented built-in table (oper/bp.go): ?: < || < && < == != < comparisons <
// + - < * / % < ^ (right) < prefix < call < member/subscript
var builtinCases = []shapeCase{
	{"a + b * c", "(a + (b * c))"},
	{"a * b + c", "((a * b) + c)"},
	{"a - b - c", "((a - b) - c)"},
	{"a ^ b ^ c", "(a ^ (b ^ c))"},
	{"a * b ^ c", "(a * (b ^ c))"},
	{"-a ^ b", "((- a) ^ b)"},
	{"-a * b", "((- a) * b)"},
	{"!a && b", "((! a) && b)"},
	{"a || b && c", "(a || (b && c))"},
	{"a && b || c", "((a && b) || c)"},
	{"a == b && c != d", "((a == b) && (c != d))"},
	{"a < b == c > d", "((a < b) == (c > d))"},
	{"a + b < c * d", "((a + b) < (c * d))"},
	{"a ? b : c ? d : e", "(a ? b : (c ? d : e))"},
	{"a || b ? c : d", "((a || b) ? c : d)"},
	{"a ? b : c || d", "(a ? b : (c || d))"},
	{"f(a, b).g[c]", "f(a, b).g[c]"},
	{"-f(a)", "(- f(a))"},
	{"-a.b", "(- a.b)"},
	{"a.b + c[d] * e(f)", "(a.b + (c[d] * e(f)))"},
	{"(a + b) * c", "((a + b) * c)"},
	{"((a))", "a"},
	{"a and b or not c", "((a and b) or (not c))"},
	{"[a + b, c ? d : e]", "[(a + b), (c ? d : e)]"},
	{"[a: b + c, d: e]", "[:a: (b + c), d: e]"},
	{"{x: a + b, y: [c]}", "{x: (a + b), y: [c]}"},
	{"a.f(b, c)", "a.f(b, c)"},
	// calls with an empty argument list, alone and as the last thing of a larger node
	{"f()", "f()"},
	{"a.m()", "a.m()"},
	{"f()()", "f()()"},
	{"f() + g()", "(f() + g())"},
	{"[a, f()]", "[a, f()]"},
	{"-f()", "(- f())"},
	{"c ? f() : g()", "(c ? f() : g())"},
	{"[]", "[]"},
	{"[:]", "[:]"},
	{"{}", "{}"},
	{"a % b / c", "((a % b) / c)"},
	{"c ? x : -a + b", "(c ? x : ((- a) + b))"},
	{"c ? -x * y : !a && b", "(c ? ((- x) * y) : ((! a) && b))"},
	{"a ^ -b * c", "((a ^ (- b)) * c)"},
	{"a ^ -b ^ c", "(a ^ ((- b) ^ c))"},
	{"(a == b) == c", "((a == b) == c)"},
	{"a == (b == c)", "(a == (b == c))"},
	{"(a < b) < (c < d)", "((a < b) < (c < d))"},
	{"-(a + b) * c", "((- (a + b)) * c)"},
}

var rejectCases = []string{
	"a < b < c", "a == b == c", "a < b < c || d", "d || a < b < c", "a != b != c && d", "a <= b <= c + 1",
	// a chain inside the right operand of a right-associative construct, followed there by a looser operator
	"x ? y : a == b == c || d", "x ? y : a < b < c && d", "x ? a == b == c || d : y", "x ^ (a) ^ b < c < d || e",
	// a comma must be followed by an argument
	"f(a,)", "f(a, b,)", "a.f(b,)", "f(a)(b,)", "f(,)", "f(,a)", "f(a,,b)", "-f(a + b,) * c",
	"a +", "* a", "a b", "(a", "a)", "[a, b", "{x a}", "f(a,", "a ? b", "a ? b :", "a . ", "[a: b, c]", "a ]", "",
}

// H08_builtin: the built-in table parses every form as documented and
// rejects malformed input with a syntax error.
func H08_builtin() {
	ops := oper.BuiltIn()
	k := sv.Choice("case", len(builtinCases)+len(rejectCases))
	if k < len(builtinCases) {
		c := builtinCases[k]
		shape, class := parseWith(ops, c.src)
		sv.Assert("documented-tree", class == "ok" && shape == c.want)
		return
	}
	src := rejectCases[k-len(builtinCases)]
	_, class := parseWith(ops, src)
	sv.Assert("malformed-input-rejected-with-syntax-error", isSyntaxError(class))
}

// spans: every node's recorded span, re-parsed on its own, is that node.
func checkSpans(ops []oper.Operator, src string, e ast.Expr) {
	rs := []rune(src)
	var visit func(n ast.Expr)
	visit = func(n ast.Expr) {
		p := n.Position()
		ok := p.Idx >= 0 && p.IdxEnd <= len(rs) && p.Idx < p.IdxEnd
		sv.Assert("span-in-bounds", ok)
		if ok {
			sub := string(rs[p.Idx:p.IdxEnd])
			shape, class := parseWith(ops, sub)
			sv.Assert("span-covers-exactly-the-node", class == "ok" && shape == Shape(n))
		}
		switch x := n.(type) {
		case *ast.GroupExpr:
			visit(x.SubExpr)
		case *ast.BinaryExpr:
			visit(x.LHS)
			visit(x.RHS)
		case *ast.UnaryExpr:
			visit(x.LHS)
		case *ast.TenaryExpr:
			visit(x.Left)
			visit(x.Mid)
			visit(x.Right)
		case *ast.CallExpr:
			visit(x.Callee)
			for _, a := range x.Args {
				visit(a)
			}
		case *ast.SubscriptExpr:
			visit(x.Var)
			visit(x.Idx)
		case *ast.MemberExpr:
			visit(x.Obj)
		case *ast.ListExpr:
			for _, a := range x.Elems {
				visit(a)
			}
		case *ast.MapExpr:
			for _, a := range x.Pairs {
				visit(a.Key)
				visit(a.Val)
			}
		case *ast.ObjExpr:
			for _, f := range x.Fields {
				visit(f.Val)
			}
		}
	}
	visit(e)
}

// H08_span: each node records the span that exactly covers its text.
func H08_span() {
	ops := oper.BuiltIn()
	c := builtinCases[sv.Choice("case", len(builtinCases))]
	src := "  " + c.src + " "
	var e ast.Expr
	class := sv.Outcome(func() { e = parser.NewParser(ops).Parse(lexer.NewLexer(ops).Lex(src)) })
	sv.Assert("parses", class == "ok")
	rs := []rune(src)
	p := e.Position()
	sv.Assert("root-span-is-the-whole-expression", p.Idx == 2 && p.IdxEnd == len(rs)-1)
	checkSpans(ops, src, e)
}

// H08_prefix_right: a prefix operator that starts the right operand of a
// right-associative operator still takes exactly the operand its own power
// dictates.
func H08_prefix_right() {
	pr, pu, pl := power("bp@"), power("bp~"), power("bp#")
	ops := []oper.Operator{{Kind: "@", BP: pr, Fixity: oper.INFIX_R}, {Kind: "~", BP: pu, Fixity: oper.PREFIX}, {Kind: "#", BP: pl, Fixity: oper.INFIX_L}}
	shape, class := parseWith(ops, "a @ ~ b # c")
	sv.Assume(pu != pl && pl != pr && pu != pr)
	switch {
	case pu > pl && pl > pr:
		sv.Assert("prefix-then-infix-inside-the-right-operand", class == "ok" && shape == "(a @ ((~ b) # c))")
	case pu > pl && pr > pl:
		sv.Assert("prefix-inside-infix-outside", class == "ok" && shape == "((a @ (~ b)) # c)")
	case pl > pu:
		sv.Assert("loose-prefix-takes-the-application", class == "ok" && shape == "(a @ (~ (b # c)))")
	}
	shape, class = parseWith(ops, "a @ (~ b) # c")
	if pl > pr {
		sv.Assert("redundant-parentheses-do-not-change-the-tree", class == "ok" && (pu < pl || shape == "(a @ ((~ b) # c))"))
	}
}

// ---- a reference parser (precedence climbing) for operator sequences

type refOp struct {
	bp  oper.BP
	fix int // 0 L, 1 R, 2 N
}

type refParser struct {
	ops     map[string]refOp
	toks    []string // a op b op c ...
	i       int
	bad     bool // syntax error by the declarations (a non-associative operator chained with itself)
	silent  bool // a situation the declarations do not dictate
}

func (p *refParser) parse(min oper.BP, strict bool) string {
	lhs := p.toks[p.i]
	p.i++
	last := ""
	for p.i < len(p.toks) {
		name := p.toks[p.i]
		op := p.ops[name]
		if strict {
			if !(op.bp > min) {
				if op.bp == min {
					// an operator of exactly the power of the one whose operand is being read
					p.checkEqual(name, op)
				}
				break
			}
		} else if op.bp < min {
			break
		}
		if op.fix == 2 && last == name {
			p.bad = true // a @ b @ c with @ non-associative
			return lhs
		}
		p.i++
		var rhs string
		if op.fix == 1 {
			rhs = p.parse(op.bp, false) // right-associative: operators of the same power stay in the right operand
		} else {
			rhs = p.parse(op.bp, true)
		}
		lhs = "(" + lhs + " " + name + " " + rhs + ")"
		last = name
	}
	return lhs
}

// checkEqual: two different operators of equal power meet. Dictated only when
// both are left- or both right-associative; everything else is silence.
func (p *refParser) checkEqual(name string, op refOp) {}

// H08_three: three user operators, each with a symbolic binding power and any
// infix fixity, in every sequence of three operator occurrences: the tree is
// the one a textbook precedence-climbing parser builds from the declarations.
// Silence: two different operators of equal power unless both are
// left-associative or both right-associative; a non-associative operator next
// to a different operator of the same power.
func H08_three() {
	names := []string{"@", "#", "$"}
	ops := map[string]refOp{}
	var table []oper.Operator
	for _, n := range names {
		f := sv.Choice("fix"+n, 3)
		bp := power("bp" + n)
		ops[n] = refOp{bp, f}
		table = append(table, oper.Operator{Kind: token.Kind(n), BP: bp, Fixity: fixityOf(f)})
	}
	// equal powers between different operators: only L/L or R/R is dictated
	for i := 0; i < 3; i++ {
		for j := 0; j < i; j++ {
			a, b := ops[names[i]], ops[names[j]]
			sv.Assume(sv.Or(a.bp != b.bp, a.fix == b.fix && a.fix != 2))
		}
	}
	seqs := [][3]int{{0, 1, 2}, {2, 1, 0}, {1, 0, 2}, {0, 0, 1}, {1, 0, 0}, {0, 1, 0}}
	if sv.Thorough() {
		seqs = nil
		for a := 0; a < 3; a++ {
			for b := 0; b < 3; b++ {
				for c := 0; c < 3; c++ {
					seqs = append(seqs, [3]int{a, b, c})
				}
			}
		}
	}
	sq := seqs[sv.Choice("sequence", len(seqs))]
	toks := []string{"a", names[sq[0]], "b", names[sq[1]], "c", names[sq[2]], "d"}
	src := ""
	for _, t := range toks {
		src += t + " "
	}
	rp := &refParser{ops: ops, toks: toks}
	want := rp.parse(0, false)
	shape, class := parseWith(table, src)
	sv.Assert("never-an-internal-fault", class == "ok" || isSyntaxError(class))
	if rp.bad {
		sv.Reach("chained-non-associative")
		sv.Assert("non-associative-never-chains", isSyntaxError(class))
		return
	}
	sv.Reach("dictated")
	if class != "ok" || shape != want {
		sv.Logf("%s: got %s (%s), the declarations dictate %s", src, shape, class, want)
	}
	sv.Assert("tree-is-the-one-the-declarations-dictate", class == "ok" && shape == want)
}

// H08_cond: a user operator of arbitrary (symbolic) power next to the
// built-in conditional, whose power is fixed (BP_COND) and which associates to
// the right: an operator declared looser than ?: applies to the whole
// conditional, a tighter one stays inside the branch it is written in.
func H08_cond() {
	p := power("bp@")
	f := sv.Choice("fix@", 2)
	ops := append([]oper.Operator{{Kind: "@", BP: p, Fixity: fixityOf(f)}}, oper.BuiltIn()...)
	ctx := sv.Choice("context", 4)
	src := [...]string{"a ? b : c @ d", "a @ b ? c : d", "a ? b @ c : d", "a ? b : c ? d : e @ f"}[ctx]
	shape, class := parseWith(ops, src)
	sv.Assert("never-an-internal-fault", class == "ok" || isSyntaxError(class))
	cond := oper.BP(oper.BP_COND)
	if p == cond {
		sv.Reach("silent-equal-power")
		return
	}
	loose := p < cond
	var want string
	switch ctx {
	case 0:
		want = "(a ? b : (c @ d))"
		if loose {
			want = "((a ? b : c) @ d)"
		}
	case 1:
		want = "((a @ b) ? c : d)"
		if loose {
			want = "(a @ (b ? c : d))"
		}
	case 2:
		want = "(a ? (b @ c) : d)" // between ? and : any expression is a whole
	default:
		want = "(a ? b : (c ? d : (e @ f)))"
		if loose {
			want = "((a ? b : (c ? d : e)) @ f)"
		}
	}
	if class != "ok" || shape != want {
		sv.Logf("%s: got %s (%s), expected %s", src, shape, class, want)
	}
	sv.Assert("conditional-and-operator-group-as-their-powers-dictate", class == "ok" && shape == want)
}

type tableCase struct {
	ops  []oper.Operator
	src  string
	want string
}

// operator tables registered in an order that puts a word operator between a
// short symbolic operator and a longer one starting with it (prefix and infix
// uses of one symbol included)
var tableCases = []tableCase{
	{[]oper.Operator{{Kind: "*", BP: 8, Fixity: oper.INFIX_L}, {Kind: "mod", BP: 8, Fixity: oper.INFIX_L}, {Kind: "**", BP: 9, Fixity: oper.INFIX_R}}, "a ** b * c mod d", "(((a ** b) * c) mod d)"},
	{[]oper.Operator{{Kind: "-", BP: 10, Fixity: oper.PREFIX}, {Kind: "-", BP: 7, Fixity: oper.INFIX_L}, {Kind: "mod", BP: 8, Fixity: oper.INFIX_L}, {Kind: "--", BP: 3, Fixity: oper.INFIX_R}}, "a -- b - c", "(a -- (b - c))"},
	{[]oper.Operator{{Kind: "<", BP: 5, Fixity: oper.INFIX_N}, {Kind: "in", BP: 5, Fixity: oper.INFIX_N}, {Kind: "<=", BP: 5, Fixity: oper.INFIX_N}, {Kind: "<=>", BP: 4, Fixity: oper.INFIX_L}}, "a <= b <=> c < d", "((a <= b) <=> (c < d))"},
	{[]oper.Operator{{Kind: "|", BP: 3, Fixity: oper.INFIX_L}, {Kind: "xor", BP: 3, Fixity: oper.INFIX_L}, {Kind: "||", BP: 2, Fixity: oper.INFIX_L}, {Kind: "|>", BP: 1.5, Fixity: oper.INFIX_L}}, "a | b || c xor d |> f", "(((a | b) || (c xor d)) |> f)"},
}

// H08_tables: whatever the order in which a table's operators were
// registered, the tree is the one their powers and fixities dictate (the
// longest registered operator is read at each position).
func H08_tables() {
	c := tableCases[sv.Choice("table", len(tableCases))]
	ops := append([]oper.Operator{}, c.ops...)
	// every rotation of the registration order
	r := sv.Choice("rotation", len(ops))
	ops = append(ops[r:], ops[:r]...)
	if sv.Choice("reversed", 2) == 1 {
		for i, j := 0, len(ops)-1; i < j; i, j = i+1, j-1 {
			ops[i], ops[j] = ops[j], ops[i]
		}
	}
	shape, class := parseWith(ops, c.src)
	if class != "ok" || shape != c.want {
		sv.Logf("%s: got %s (%s), expected %s", c.src, shape, class, c.want)
	}
	sv.Assert("tree-does-not-depend-on-registration-order", class == "ok" && shape == c.want)
}

// H08_sequence: a parser's tree is dictated by its own table alone, whatever
// tables other parsers of the same process were built from before. Two tables
// over the same two operators are used one after the other; the powers come
// from a small set with fractional members (7, 7.5, 8, 8.5), so two tables
// may differ in nothing but the fractional part of one power.
func H08_sequence() {
	pows := []oper.BP{7, 7.5, 8, 8.5}
	src := "a @ b # c @ d # e"
	toks := []string{"a", "@", "b", "#", "c", "@", "d", "#", "e"}
	for round := 0; round < 2; round++ {
		tag := []string{"first", "second"}[round]
		pa := pows[sv.Choice(tag+".bp@", len(pows))]
		pb := pows[sv.Choice(tag+".bp#", len(pows))]
		ops := map[string]refOp{"@": {pa, 0}, "#": {pb, 0}}
		table := []oper.Operator{
			{Kind: "@", BP: pa, Fixity: oper.INFIX_L},
			{Kind: "#", BP: pb, Fixity: oper.INFIX_L},
		}
		rp := &refParser{ops: ops, toks: toks}
		want := rp.parse(0, false)
		shape, class := parseWith(table, src)
		if class != "ok" || shape != want {
			sv.Logf("%s table (@ %v, # %v): got %s (%s), the declarations dictate %s", tag, pa, pb, shape, class, want)
		}
		sv.Assert("tree-is-dictated-by-this-parser's-own-table:"+tag, class == "ok" && shape == want)
	}
}
