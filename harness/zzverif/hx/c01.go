//go:build verif

package hx

import (
	"github.com/goghcrow/yae/trans"
	"github.com/goghcrow/yae/parser/ast"
	"github.com/goghcrow/yae/conv"
	"github.com/goghcrow/yae/types"
	"github.com/goghcrow/yae/val"
	"github.com/goghcrow/yae/zzverif/sv"
)

// preservation: every back end's result is well typed at the inferred type.
func preserved(e *Engine, src string, tys map[string]*types.Type, vals map[string]*val.Val, names []string) ([NBackends]*val.Val, [NBackends]string, *types.Type) {
	expr, ty, cls := e.Front(src, tys, names)
	sv.Assert("accepted", cls == "ok")
	res, c := runAll(e, expr, vals, names)
	for b := 0; b < NBackends; b++ {
		sv.Assert("no-mis-typed-access:"+BackendNames[b], c[b] != "cast" && c[b] != "rt:nil" && c[b] != "rt:typeassert")
		if c[b] == "ok" {
			why := RefWellTyped(res[b], ty)
			if why != "" {
				sv.Logf("%s: %s yields %s", BackendNames[b], src, why)
			}
			sv.Assert("result-has-inferred-type:"+BackendNames[b], why == "")
		}
	}
	return res, c, ty
}

type fieldProg struct {
	src   string
	field string // the field the program selects from an {a:num,b:str} object
}

// programs that select a field of an object reached through every container
// and polymorphic form; x, y, z are objects {a:num, b:str} whose values (and
// compile-time types) may list the fields in either order.
var fieldProgs = []fieldProg{
	{"x.a", "a"},
	{"x.b", "b"},
	{"[x, y][i].a", "a"},
	{"[y, x][i].b", "b"},
	{"if(c, x, y).a", "a"},
	{"(c ? y : x).b", "b"},
	{"get(xs, i, y).a", "a"},
	{"get(o, y).b", "b"},
	{"get(m, k, x).a", "a"},
	{"m[k].b", "b"},
	{"{p: x, q: y}.q.a", "a"},
	{"[k: x, \"z\": y][k].a", "a"},
	{"id(y).a", "a"},
	{"fs[0](y).b", "b"},
	{"x.a + y.a", "+"},
}

func objValue(t *types.Type, name string) (*val.Val, float64, string) {
	a := sv.Float64(name + ".a")
	b := "s:" + name
	o := val.Obj(t.Obj()).Obj()
	o.Put("a", val.Num(a))
	o.Put("b", val.Str(b))
	return o.Vl(), a, b
}

// H01_fields: field selection yields the field of that name whatever order
// the fields were declared or supplied in (literals, environment values,
// list/map/optional containers, polymorphic and dynamic calls).
func H01_fields() {
	e := NewEngine()
	p := fieldProgs[sv.Choice("prog", len(fieldProgs))]
	// compile-time types and run-time values each pick their own field order
	tx, ty := Permuted(TObjAB, "tx"), Permuted(TObjAB, "ty")
	vx, xa, xb := objValue(Permuted(TObjAB, "vx"), "x")
	vy, ya, yb := objValue(Permuted(TObjAB, "vy"), "y")
	// the selectors a program does not use stay fixed
	i, c, present := 0, true, true
	switch p.src {
	case "[x, y][i].a", "[y, x][i].b", "get(xs, i, y).a":
		i = sv.Choice("i", 2)
	case "if(c, x, y).a", "(c ? y : x).b":
		c = sv.Bool("c")
	case "get(o, y).b":
		present = sv.Choice("present", 2) == 1
	}

	idA := types.TyVar("a")
	e.Register(val.Fun(types.Fun("id", []*types.Type{idA}, idA), func(args ...*val.Val) *val.Val { return args[0] }))
	fobj := types.Fun("f", []*types.Type{ty}, ty)
	fs := val.List(types.List(fobj).List(), 1).List()
	fs.V[0] = val.Fun(fobj, func(args ...*val.Val) *val.Val { return args[0] })

	xs := val.List(types.List(tx).List(), 1).List()
	xs.V[0] = vx
	var o *val.Val
	if present {
		o = val.Just(vx.Type, vx)
	} else {
		o = val.Nothing(vx.Type)
	}
	m := val.Map(types.Map(types.Str, tx).Map()).Map()
	m.Put(val.Str("k"), vx)

	tys := map[string]*types.Type{"x": tx, "y": ty, "i": types.Num, "c": types.Bool, "k": types.Str,
		"xs": types.List(tx), "o": types.Maybe(tx), "m": types.Map(types.Str, tx), "fs": types.List(fobj)}
	cv := val.False
	if c {
		cv = val.True
	}
	vals := map[string]*val.Val{"x": vx, "y": vy, "i": val.Num(float64(i)), "c": cv, "k": val.Str("k"),
		"xs": xs.Vl(), "o": o, "m": m.Vl(), "fs": fs.Vl()}
	names := []string{"x", "y", "i", "c", "k", "xs", "o", "m", "fs"}
	res, cls, _ := preserved(e, p.src, tys, vals, names)

	// which object is selected, by the language's semantics
	fromX := true
	switch p.src {
	case "[x, y][i].a":
		fromX = i == 0
	case "[y, x][i].b":
		fromX = i == 1
	case "if(c, x, y).a":
		fromX = c
	case "(c ? y : x).b":
		fromX = !c
	case "get(xs, i, y).a":
		fromX = i == 0
	case "get(o, y).b":
		fromX = present
	case "{p: x, q: y}.q.a", "id(y).a", "fs[0](y).b":
		fromX = false
	}
	for b := 0; b < NBackends; b++ {
		sv.Assert("evaluates:"+BackendNames[b], cls[b] == "ok")
		if cls[b] != "ok" || res[b] == nil || res[b].Type == nil {
			continue
		}
		switch p.field {
		case "a":
			sv.Assert("selects-the-field-named-a:"+BackendNames[b], res[b].Type.Kind == types.KNum && sv.Same(res[b].Num().V, sv.IteF(fromX, xa, ya)))
		case "b":
			want := yb
			if fromX {
				want = xb
			}
			sv.Assert("selects-the-field-named-b:"+BackendNames[b], res[b].Type.Kind == types.KStr && res[b].Str().V == want)
		case "+":
			sv.Assert("adds-the-fields-named-a:"+BackendNames[b], res[b].Type.Kind == types.KNum && sv.Same(res[b].Num().V, xa+ya))
		}
	}
	sv.Reach("checked")
}

// uses: the identifier occurs in src as a whole word.
func uses(src, name string) bool {
	isW := func(c byte) bool { return c == '_' || c >= '0' && c <= '9' || c >= 'a' && c <= 'z' || c >= 'A' && c <= 'Z' }
	for i := 0; i+len(name) <= len(src); i++ {
		if src[i:i+len(name)] == name && (i == 0 || !isW(src[i-1])) && (i+len(name) == len(src) || !isW(src[i+len(name)])) {
			return true
		}
	}
	return false
}

type stepProg struct {
	src   string
	arity int
}

// one node kind over identifier children x, y, z of catalogue types
var stepProgs = []stepProg{
	{"[x]", 1}, {"[x, y]", 2}, {"[x, y, x]", 2},
	{"[k: x]", 1}, {"[k: x, k2: y]", 2},
	{"{f: x}", 1}, {"{f: x, g: y}", 2}, {"{g: y, f: x}", 2},
	{"if(c, x, y)", 2}, {"c ? x : y", 2},
	{"get(o, x)", 1}, {"get(xs, i, x)", 1}, {"get(m, k, x)", 1},
	{"id(x)", 1}, {"[x, y][i]", 2}, {"[k: x][k]", 1}, {"{f: x, g: y}.g", 2},
	{"[{f: x, g: x}, {f: x, g: y}][i].g", 2}, {"[{f: xs, g: xs}, {f: [x], g: [y]}][i].g", 2}, {"if(c, {f: x, g: x}, {f: y, g: x}).f", 2},
	{"x == y", 2}, {"string(x)", 1}, {"len([x, y])", 2}, {"union([x], [y])", 2},
	// the polymorphic list functions applied to the children themselves: the
	// result is built from the run-time type of one argument, so an
	// instantiation that lets the two differ (empty-literal types) shows here
	{"union(x, y)", 2}, {"intersect(x, y)", 2}, {"diff(x, y)", 2},
	// object literals of equal type written with their fields in different
	// orders inside one program (they may share compile-time artefacts)
	{"[{f: x, g: y}, {g: y, f: x}][i].g", 2}, {"if(c, {f: x, g: y}, {g: y, f: x}).f", 2},
	{"{p: {f: x, g: y}, q: {g: y, f: x}}.q.f", 2}, {"[{f: x, g: y}, {g: y, f: x}]", 2},
}

// H01_step: one step of the inductive argument - each node kind, applied to
// arbitrary well-typed children of catalogue types, yields on every back end
// a value that is well typed at the inferred type (components included).
func H01_step() {
	e := sv.Setup("engine+id", func() interface{} {
		e := NewEngine()
		idA := types.TyVar("a")
		e.Register(val.Fun(types.Fun("id", []*types.Type{idA}, idA), func(args ...*val.Val) *val.Val { return args[0] }))
		return e
	}).(*Engine)
	p := stepProgs[sv.Choice("prog", len(stepProgs))]
	n := CatalogueSize()
	kx := sv.Choice("Tx", n)
	tx := Catalogue(kx)
	ty := tx
	if p.arity == 2 {
		// the second child: an equal type (fields permuted) or any other one
		// (all ordered pairs of TC2 types times 31 programs times the values of both exceed the path budget; the thorough tier widens the catalogue, not the pairing)
		switch sv.Choice("y-type", 3) {
		case 0:
			ty = Permuted(tx, "ty")
		case 1:
			ty = Catalogue((kx + 1) % n)
		case 2:
			// both orders of every adjacent pair (list[num] next to list[⊥])
			ty = Catalogue((kx + n - 1) % n)
		default:
			ty = Catalogue(sv.Choice("Ty", n))
		}
	}
	tys := map[string]*types.Type{"x": tx, "y": ty, "i": types.Num, "c": types.Bool, "k": types.Str, "k2": types.Str,
		"xs": types.List(tx), "o": types.Maybe(tx), "m": types.Map(types.Str, tx)}
	names := []string{"x", "y", "i", "c", "k", "k2", "xs", "o", "m"}
	// front end and the four compilers once per (program, child types): the
	// compiled closures are then run on every value of those types
	cc := CompiledOnce(e, p.src, tys, names)
	t, cls := cc.ty, cc.cls
	if cls != "ok" {
		sv.Reach("rejected")
		sv.Assert("rejection-is-a-type-error", hasPrefix(cls, "assert:"))
		return
	}
	ConcreteTimes = true
	NumPool = []float64{1, 2.5}
	MaxLenQuick = 2
	StrPoolQuick = true
	vx := AnyVal(Permuted(tx, "vx"), "x")
	vy := AnyVal(Permuted(ty, "vy"), "y")
	StrPoolQuick = false
	xs := val.List(types.List(vx.Type).List(), 1).List()
	xs.V[0] = vx
	o := val.Just(vx.Type, vx)
	if uses(p.src, "o") && sv.Choice("absent", 2) == 1 {
		o = val.Nothing(vx.Type)
	}
	m := val.Map(types.Map(types.Str, vx.Type).Map()).Map()
	m.Put(val.Str("k"), vx)
	NumPool = nil
	cv := val.False
	if uses(p.src, "c") && sv.Bool("c") {
		cv = val.True
	}
	iv, k2 := 0, "k2"
	if uses(p.src, "i") {
		iv = sv.Choice("i", 2)
	}
	if uses(p.src, "k2") && sv.Choice("k2", 2) == 1 {
		k2 = "k" // duplicate key
	}
	vals := map[string]*val.Val{"x": vx, "y": vy, "i": val.Num(float64(iv)), "c": cv, "k": val.Str("k"), "k2": val.Str(k2),
		"xs": xs.Vl(), "o": o, "m": m.Vl()}
	res, c := runCompiled(e, cc, vals, names)
	for b := 0; b < NBackends; b++ {
		sv.Assert("no-mis-typed-access:"+BackendNames[b], c[b] != "cast" && c[b] != "rt:nil" && c[b] != "rt:typeassert")
		if c[b] == "ok" {
			why := RefWellTyped(res[b], t)
			if why != "" {
				sv.Logf("%s: %s : %s yields %s", BackendNames[b], p.src, t.String(), why)
			}
			sv.Assert("result-has-inferred-type:"+BackendNames[b], why == "")
		}
	}
	sv.Reach("accepted")
}

type hItem struct {
	Name string  `yae:"name"`
	Note *string `yae:"note"`
	Tags []int   `yae:"tags"`
}

// H01_host: preservation over host-supplied data. Slices, arrays and maps of
// structs whose nil-able fields are set in some elements and nil in others
// either fail to convert (inconsistent data) or, once an expression over them
// is accepted, yield values every component of which has the type its
// container declares - on every back end, for every iteration order.
func H01_host() {
	e := Eng()
	s1, s2 := "n1", "n2"
	mk := func(k int) hItem {
		switch k {
		case 0:
			return hItem{"a", &s1, []int{1}}
		case 1:
			return hItem{"b", nil, []int{2}}
		case 2:
			return hItem{"c", &s2, nil}
		default:
			return hItem{"d", nil, nil}
		}
	}
	i0, i1 := sv.Choice("item0", 4), sv.Choice("item1", 4)
	var host interface{}
	switch sv.Choice("container", 3) {
	case 0:
		host = map[string]interface{}{"items": []hItem{mk(i0), mk(i1)}}
	case 1:
		host = map[string]interface{}{"items": [2]hItem{mk(i0), mk(i1)}}
	default:
		host = map[string]interface{}{"items": map[string]hItem{"x": mk(i0), "y": mk(i1)}}
	}
	srcs := []string{"items", "[items]", "{f: items}"}
	src := srcs[sv.Choice("prog", len(srcs))]
	sv.MapOrder(1)
	var tenv *types.Env
	var venv *val.Env
	var e1, e2 error
	cls := sv.Outcome(func() {
		tenv, e1 = conv.TypeEnvOf(host)
		venv, e2 = conv.ValEnvOf(host)
	})
	sv.MapOrder(0)
	sv.Assert("conversion-does-not-panic", cls == "ok")
	if cls != "ok" || e1 != nil || e2 != nil {
		sv.Reach("rejected-as-inconsistent-data")
		return
	}
	var expr ast.Expr
	var ty *types.Type
	fcls := sv.Outcome(func() {
		expr = trans.Desugar(e.Parse(src))
		ty = types.Check(expr, tenv.Inherit(e.TyEnv))
	})
	if fcls != "ok" {
		sv.Reach("rejected-at-compile-time")
		return
	}
	for b := 0; b < NBackends; b++ {
		bb := b
		var r *val.Val
		c := sv.Outcome(func() { r = Backend(bb)(expr, e.Rt)(venv.Inherit(e.Rt)) })
		sv.Assert("no-mis-typed-access:"+BackendNames[b], c != "cast" && c != "rt:nil" && c != "rt:typeassert")
		if c == "ok" {
			why := RefWellTyped(r, ty)
			if why != "" {
				sv.Logf("%s: %s : %s yields %s", BackendNames[b], src, ty.String(), why)
			}
			sv.Assert("result-has-inferred-type:"+BackendNames[b], why == "")
		}
	}
	sv.Reach("accepted")
}

// H01_overloads: preservation for calls to generic host overloads whatever the
// sequence of registrations - the same overload registered more than once
// (two plug-ins that both bring it along), before, between or after the
// others: the value of `describe(v)` has the type the checker inferred, on
// every back end.
func H01_overloads() {
	a := types.TyVar("a")
	onList := val.Fun(types.Fun("describe", []*types.Type{types.List(a)}, types.Str), func(args ...*val.Val) *val.Val { return val.Str("a list") })
	onMap := val.Fun(types.Fun("describe", []*types.Type{types.Map(types.Str, a)}, types.Num), func(args ...*val.Val) *val.Val { return val.Num(42) })
	onAny := val.Fun(types.Fun("describe", []*types.Type{a}, types.Bool), func(args ...*val.Val) *val.Val { return val.True })
	fs := []*val.Val{onList, onMap, onAny}
	seqs := [][]int{{0, 1, 2}, {0, 0, 1, 2}, {0, 1, 1, 2}, {0, 1, 2, 2}, {1, 1, 0, 2}, {0, 1, 0, 2}, {1, 0, 0, 1, 2}}
	e := NewEngine()
	for _, k := range seqs[sv.Choice("registrations", len(seqs))] {
		e.Register(fs[k])
	}
	tys := []*types.Type{types.List(types.Num), types.Map(types.Str, types.Num), types.Num}
	want := []*types.Type{types.Str, types.Num, types.Bool}
	k := sv.Choice("argument", len(tys))
	names := []string{"v"}
	expr, ty, cls := e.Front("describe(v)", map[string]*types.Type{"v": tys[k]}, names)
	sv.Assert("accepted", cls == "ok")
	if cls != "ok" {
		return
	}
	sv.Assert("resolves-to-the-first-registered-overload-that-instantiates", RefTypeEq(ty, want[k]))
	MaxLenQuick = 1
	vals := map[string]*val.Val{"v": AnyVal(tys[k], "v")}
	MaxLenQuick = 3
	res, rc := runAll(e, expr, vals, names)
	for b := 0; b < NBackends; b++ {
		sv.Assert("evaluates:"+BackendNames[b], rc[b] == "ok")
		if rc[b] == "ok" {
			sv.Assert("value-has-the-inferred-type:"+BackendNames[b], RefWellTyped(res[b], ty) == "")
		}
	}
	sv.Reach("evaluated")
}
