//go:build verif

package hx

import (
	"github.com/goghcrow/yae/fun"
	"github.com/goghcrow/yae/types"
	"github.com/goghcrow/yae/val"
	"github.com/goghcrow/yae/zzverif/sv"
)

func list1(v *val.Val) *val.Val {
	l := val.List(types.List(v.Type).List(), 1).List()
	l.V[0] = v
	return l.Vl()
}

func setLen(f *val.Val, x, y *val.Val) int {
	return len(f.Fun().Call(list1(x), list1(y)).List().V)
}

// sameness compares the four notions of "the same value" for x and y.
func sameness(x, y *val.Val, primitive bool) {
	eq := val.Equals(x, y)
	if !primitive || x.Type.Kind != types.KNum || sv.Thorough() {
		// for two numbers symmetry is |a-b| < eps <=> |b-a| < eps: a 30-100 s
		// floating-point query, kept for the thorough tier
		sv.Assert("symmetric", val.Equals(y, x) == eq)
	}
	render := sv.StrEq(x.String(), y.String())
	sv.Assert("equal-iff-same-rendering", render == eq)
	if primitive {
		kx, ky := x.Key(), y.Key()
		sv.Assert("equal-iff-same-key", sv.StrEq(kx.String(), ky.String()) == eq)
		m := val.Map(types.Map(x.Type, types.Num).Map()).Map()
		m.Put(x, val.Num(1))
		_, found := m.Get(y)
		sv.Assert("equal-iff-selects-same-entry", found == eq)
	}
	sv.Assert("equal-iff-union-1", (setLen(fun.UNION_LIST_LIST, x, y) == 1) == eq)
	sv.Assert("equal-iff-intersect-1", (setLen(fun.INTERSECT_LIST_LIST, x, y) == 1) == eq)
	sv.Assert("equal-iff-diff-0", (setLen(fun.DIFF_LIST_LIST, x, y) == 0) == eq)
}

// H18_num: distinct finite numbers - however large - never render alike,
// never collide as map keys and never count as one set element; identical
// numbers always do. (No tolerance involved: a == b is IEEE equality.)
func H18_num() {
	a, b := sv.Float64("a"), sv.Float64("b")
	sv.Assume(sv.And(a-a == 0, b-b == 0)) // finite
	x, y := val.Num(a), val.Num(b)
	same := a == b
	sv.Assert("reflexive", val.Equals(x, x))
	// == is a tolerance of 1e-9 whatever the magnitude: numbers a thousandth or
	// more apart are never equal, identical ones always are
	sv.Assert("numbers-clearly-apart-are-not-equal", sv.Implies(sv.Or(a-b >= 0.001, b-a >= 0.001), !val.Equals(x, y) && !val.Equals(y, x)))
	sv.Assert("identical-numbers-are-equal", sv.Implies(same, val.Equals(x, y)))
	sv.Assert("same-rendering-iff-same-number", sv.StrEq(x.String(), y.String()) == same)
	kx, ky := x.Key(), y.Key()
	sv.Assert("same-key-iff-same-number", sv.StrEq(kx.String(), ky.String()) == same)
	sv.Assert("one-set-element-iff-same-number", (setLen(fun.UNION_LIST_LIST, x, y) == 1) == same)
	sv.Reach("compared")
}

// H18_numtol (thorough tier: 20-100 s floating-point queries): for numbers
// that are identical or more than the tolerance apart, == agrees with
// rendering, key identity and set membership, and is symmetric.
func H18_numtol() {
	if !sv.Thorough() {
		sv.Reach("skipped-in-quick-tier")
		return
	}
	a, b := sv.Float64("a"), sv.Float64("b")
	AssumeSeparated([]float64{a, b}, true)
	sameness(val.Num(a), val.Num(b), true)
	sv.Reach("compared")
}

var c18Types = []*types.Type{
	types.Str, types.Bool, types.Time,
	types.List(types.Num),
	types.Map(types.Str, types.Num),
	types.Map(types.Num, types.Str),
	types.Maybe(types.Num),
	TObjAB,
	ObjT([]string{"c", "a", "b"}, []*types.Type{types.Bool, types.Num, types.Str}),
	types.List(TObjAB),
	types.Map(types.Str, types.List(types.Num)),
}

// H18_val: two values of equal types (object fields of y in a
// selector-chosen order): ==, rendering, key identity and set membership
// agree; == is reflexive and symmetric.
func H18_val() {
	k := sv.Choice("type", len(c18Types))
	t := c18Types[k]
	ConcreteTimes = true
	// structure is what is quantified here; numbers come from a pool that
	// crosses the integer / fraction / 2^53 / 2^63 renderings (the scalar
	// laws are H18_num and H18_numtol)
	NumPool = []float64{1, 2.5}
	if sv.Thorough() {
		// more numbers (2^53+1 and 1e19 render through different branches), the
		// full string pool; container sizes as in the quick tier - the number of
		// pairs grows with the square of the number of values
		NumPool = []float64{1, 2.5, 9007199254740993, 1e19}
	}
	MaxLenQuick = 2
	x := AnyVal(t, "x")
	y := AnyVal(Permuted(t, "perm"), "y")
	NumPool = nil
	sv.Assert("reflexive", val.Equals(x, x))
	sameness(x, y, t.Kind.IsPrimitive())
	sv.Reach("compared")
}

// H18_canonical: rendering does not depend on the order in which object
// fields were written or map entries inserted.
func H18_canonical() {
	// the same three field values under every field order
	a, b := sv.Float64("a"), sv.Float64("b")
	AssumeSeparated([]float64{a, b}, true)
	c := sv.Bool("c")
	base := ObjT([]string{"c", "a", "b"}, []*types.Type{types.Bool, types.Num, types.Num})
	mk := func(t *types.Type) *val.Val {
		o := val.Obj(t.Obj()).Obj()
		o.Put("a", val.Num(a))
		o.Put("b", val.Num(b))
		o.Put("c", val.Bool(c))
		return o.Vl()
	}
	x := mk(base)
	y := mk(Permuted(base, "perm"))
	sv.Assert("object-rendering-ignores-field-order", sv.StrEq(x.String(), y.String()))
	sv.Assert("equal-objects", val.Equals(x, y))
	sv.Reach("compared")
}

// H18_canonical_map: rendering of a map does not depend on insertion order
// nor on the (randomised) iteration order.
func H18_canonical_map() {
	// the same entries inserted in two orders, iterated in every order
	mt := types.Map(types.Str, types.Num).Map()
	m1, m2 := val.Map(mt).Map(), val.Map(mt).Map()
	keys := []string{"k", "a\"b", "é"}
	vs := []float64{1, 2.5, sv.Float64("v2")}
	for i := 0; i < 3; i++ {
		m1.Put(val.Str(keys[i]), val.Num(vs[i]))
		m2.Put(val.Str(keys[2-i]), val.Num(vs[2-i]))
	}
	sv.MapOrder(1)
	s1 := m1.Vl().String()
	s2 := m2.Vl().String()
	sv.MapOrder(0)
	sv.Assert("map-rendering-ignores-insertion-and-iteration-order", sv.StrEq(s1, s2))
	sv.Reach("compared")
}

// H18_shared: a value that contains the same sub-value twice (a DAG, not a
// cycle) renders like the structurally equal value without sharing.
func H18_shared() {
	a := sv.Float64("a")
	AssumeSeparated([]float64{a}, true)
	l := val.List(types.List(types.Num).List(), 1).List()
	l.V[0] = val.Num(a)
	l2 := val.List(types.List(types.Num).List(), 1).List()
	l2.V[0] = val.Num(a)
	tt := types.List(types.List(types.Num)).List()
	shared := val.List(tt, 2).List()
	shared.V[0], shared.V[1] = l.Vl(), l.Vl()
	plain := val.List(tt, 2).List()
	plain.V[0], plain.V[1] = l.Vl(), l2.Vl()
	eq := val.Equals(shared.Vl(), plain.Vl())
	sv.Assert("equal", eq)
	sv.Assert("equal-iff-same-rendering", sv.StrEq(shared.Vl().String(), plain.Vl().String()) == eq)
	sv.Reach("compared")
}

// strings that need escaping, next to the strings that spell those escapes
// out (a, backslash, n  versus  a, line feed): whatever turns a string into a
// key or a rendering must keep each pair apart
var c18Strings = []string{
	"", "a", "A", "a b", "a\n", "a\\n", "\t", "\\t", "\"", "\\\"", "\\", "\\\\", "é", "\\u00e9", "é́",
	"\x00", "\\x00", "\xff", "\\xff", "�", "'", "`", "a\"", "\"a", "1", "true",
}

// H18_str: the sameness laws on pairs of strings, in particular strings that
// differ only in how an escape sequence is spelled.
func H18_str() {
	a := c18Strings[sv.Choice("x", len(c18Strings))]
	b := c18Strings[sv.Choice("y", len(c18Strings))]
	x, y := val.Str(a), val.Str(b)
	sv.Assert("equality-is-identity-of-strings", val.Equals(x, y) == (a == b))
	sameness(x, y, true)
	// as keys of one map
	m := val.Map(types.Map(types.Str, types.Num).Map()).Map()
	m.Put(x, val.Num(1))
	m.Put(y, val.Num(2))
	want := 2
	if a == b {
		want = 1
	}
	sv.Assert("distinct-strings-are-distinct-keys", len(m.V) == want)
	// and inside containers
	sameness(list1(x), list1(y), false)
	sv.Reach("compared")
}

// H18_canonical_nummap: the same for maps keyed by numbers, with key sets that
// mix whole and fractional (and huge) numbers - whatever order the renderer
// sorts entries by has to be a total one.
func H18_canonical_nummap() {
	sets := [][3]float64{{9, 10, 10.5}, {-1, -2, -1.5}, {1, 2, 3}, {0.5, 1.5, 2}, {1e20, 9, 10}, {100, 20, 3.25}}
	ks := sets[sv.Choice("keys", len(sets))]
	mt := types.Map(types.Num, types.Num).Map()
	m1, m2 := val.Map(mt).Map(), val.Map(mt).Map()
	perm := [][3]int{{0, 1, 2}, {0, 2, 1}, {1, 0, 2}, {1, 2, 0}, {2, 0, 1}, {2, 1, 0}}[sv.Choice("insertion-order", 6)]
	v := sv.Float64("v")
	for i := 0; i < 3; i++ {
		m1.Put(val.Num(ks[i]), val.Num(v))
		m2.Put(val.Num(ks[perm[i]]), val.Num(v))
	}
	sv.MapOrder(1)
	s1 := m1.Vl().String()
	s2 := m2.Vl().String()
	sv.MapOrder(0)
	sv.Assert("map-rendering-ignores-insertion-and-iteration-order", sv.StrEq(s1, s2))
	sv.Reach("compared")
}
