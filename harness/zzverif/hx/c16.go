//go:build verif

package hx

import (
	"github.com/goghcrow/yae/fun"
	"github.com/goghcrow/yae/parser/ast"
	"github.com/goghcrow/yae/types"
	"github.com/goghcrow/yae/val"
	"github.com/goghcrow/yae/zzverif/sv"
)

// H16_reject: take every built-in program and make one operand optional: the
// program must be rejected at compile time unless that operand sits in a
// type-variable position (which the reference rules decide); in particular
// nothing but get(optional, default) yields the payload type.
func H16_reject() {
	p := opProgs[sv.Choice("prog", len(opProgs))]
	j := sv.Choice("operand", len(p.names))
	e := Eng()
	tys := map[string]*types.Type{}
	for i, n := range p.names {
		tys[n] = p.tys[i]
	}
	base := tys[p.names[j]]
	tys[p.names[j]] = types.Maybe(base)

	r := &refEnv{vars: tys}
	for _, f := range fun.BuiltIn() {
		r.funs = append(r.funs, f.Type)
	}
	var parsed ast.Expr
	pcls := sv.Outcome(func() { parsed = e.Parse(p.src) })
	sv.Assert("parses", pcls == "ok")
	var got *types.Type
	cls := sv.Outcome(func() { _, got = e.CheckAST(parsed, tys, p.names) })
	want, _ := r.infer(refDesugar(parsed))
	if want == nil {
		sv.Reach("rejected-by-the-rules")
		sv.Assert("optional-where-payload-required-is-rejected", cls != "ok" && hasPrefix(cls, "assert:"))
		return
	}
	sv.Reach("generic-position")
	sv.Assert("generic-position-accepted", cls == "ok")
	if cls == "ok" {
		sv.Assert("inferred-type", RefTypeEq(got, want))
	}
}

type optProg struct {
	src   string
	names []string
	tys   []*types.Type
}

var tOLN = types.Maybe(types.List(types.Num))
var tLON = types.List(types.Maybe(types.Num))
var tMSON = types.Map(types.Str, types.Maybe(types.Num))
var tObjOpt = ObjT([]string{"f", "g"}, []*types.Type{types.Maybe(types.Num), types.Maybe(types.Str)})

var optProgs = []optProg{
	{"get(o, d)", []string{"o", "d"}, []*types.Type{tON, tNum}},
	{"get(xs[0], d)", []string{"xs", "d"}, []*types.Type{tLON, tNum}},
	{"get(get(xs, i, o), d)", []string{"xs", "i", "o", "d"}, []*types.Type{tLON, tNum, tON, tNum}},
	{"get(p.f, d) + len(get(p.g, \"\"))", []string{"p", "d"}, []*types.Type{tObjOpt, tNum}},
	{"get(get(m, k, o), d)", []string{"m", "k", "o", "d"}, []*types.Type{tMSON, tStr, tON, tNum}},
	{"len(xs) + len(m)", []string{"xs", "m"}, []*types.Type{tLON, tMSON}},
	{"if(isset(m, k), get(m[k], d), d)", []string{"m", "k", "d"}, []*types.Type{tMSON, tStr, tNum}},
	{"string(o) + string(xs) + string(p)", []string{"o", "xs", "p"}, []*types.Type{tON, tLON, tObjOpt}},
	{"[o, o] == [o]", []string{"o"}, []*types.Type{tON}},
	{"get(oo, o)", []string{"oo", "o"}, []*types.Type{types.Maybe(tON), tON}},
}

// H16_run: accepted programs over optional-typed variables and fields,
// present and absent, never fail because of the absence; get yields the
// payload when present and the default otherwise.
func H16_run() {
	e := NewEngine()
	k := sv.Choice("prog", len(optProgs))
	p := optProgs[k]
	tys := map[string]*types.Type{}
	for i, n := range p.names {
		tys[n] = p.tys[i]
	}
	expr, ty, cls := e.Front(p.src, tys, p.names)
	sv.Assert("accepted", cls == "ok")
	vals := map[string]*val.Val{}
	NumPool = nil
	MaxLenQuick = 2
	for i, n := range p.names {
		if n == "xs" && (k == 1) {
			// xs[0] needs an element
			l := val.List(p.tys[i].List(), 1).List()
			l.V[0] = AnyVal(types.Maybe(types.Num), "xs[0]")
			vals[n] = l.Vl()
			continue
		}
		vals[n] = AnyVal(p.tys[i], n)
	}
	MaxLenQuick = 3
	res, c := runAll(e, expr, vals, p.names)
	for b := 0; b < NBackends; b++ {
		sv.Assert("never-fails-because-of-absence:"+BackendNames[b], c[b] == "ok")
		if c[b] == "ok" {
			sv.Assert("well-typed:"+BackendNames[b], RefWellTyped(res[b], ty) == "")
		}
	}
	if k == 0 && c[0] == "ok" {
		d := vals["d"].Num().V
		want := d
		if pv := vals["o"].Maybe().V; pv != nil {
			want = pv.Num().V
		}
		for b := 0; b < NBackends; b++ {
			sv.Assert("payload-or-default:"+BackendNames[b], c[b] == "ok" && res[b].Type.Kind == types.KNum && sv.Same(res[b].Num().V, want))
		}
	}
	sv.Reach("ran")
}

// programs that try to get an optional past the checker without get(o, d):
// through empty literals (whose element type ⊥ must not absorb an optional
// and then turn into the payload type), through generic built-ins and
// through containers
var smuggleProgs = []string{
	"if(true, [[], [o]][1][0], 0) + 1", "len(if(true, [[], [s]][1][0], \"\"))", "if(c, [o], [])[0] + 1", "if(c, [], [o])[0] + 1",
	"get([[], [o]], 1, [])[0] + 1", "get([o], 0, 0) + 1", "get([:], k, o) + 1", "[[], [o]][1][0] + 1", "[[], [o]]", "[[:], [k: o]]",
	"if(c, o, 0) + 1", "[o, 0][0] + 1", "max(o, 1)", "max([o])", "[k: o][k] + 1", "{f: o}.f + 1", "union([o], [1])[0] + 1", "union([], [o])[0] + 1",
	// one list-typed variable in two fields of the first element, an optional list at the second position of the other
	"[{a: xs, b: xs}, {a: ys, b: oxs}][1].b[0] + 1", "len([{a: xs, b: xs}, {a: ys, b: oxs}][1].b)", "[k: {a: xs, b: xs}, \"j\": {a: ys, b: oxs}][k].b[0]", "[{a: xs, b: xs}, {a: xs, b: oxs}][1].b[0] + 1",
	"if(c, o, o) + 1", "get(o, 0) + 1", "get(get([o], 0, o), 0) + 1", "len(get(s, \"\"))", "get([[], [o]][1], 0, o)",
}

// H16_smuggle: whatever a program does with an optional other than
// get(optional, default) either keeps the optional type or is rejected - the
// reference rules and the checker agree on each program; and an accepted one
// never fails for a present or an absent payload.
func H16_smuggle() {
	e := Eng()
	src := smuggleProgs[sv.Choice("prog", len(smuggleProgs))]
	tys := map[string]*types.Type{"o": tON, "s": types.Maybe(tStr), "c": tBool, "k": tStr, "xs": tLN, "ys": types.List(types.Num), "oxs": tOLN}
	names := []string{"o", "s", "c", "k", "xs", "ys", "oxs"}
	r := &refEnv{vars: tys}
	for _, f := range fun.BuiltIn() {
		r.funs = append(r.funs, f.Type)
	}
	var parsed ast.Expr
	pcls := sv.Outcome(func() { parsed = e.Parse(src) })
	sv.Assert("parses", pcls == "ok")
	var got *types.Type
	var expr ast.Expr
	cls := sv.Outcome(func() { expr, got = e.CheckAST(parsed, tys, names) })
	want, why := r.infer(refDesugar(parsed))
	if want == nil {
		sv.Reach("rejected-by-the-rules")
		if cls == "ok" {
			sv.Logf("accepted although: %s (%s : %s)", why, src, got.String())
		}
		sv.Assert("optional-where-payload-required-is-rejected", cls != "ok" && hasPrefix(cls, "assert:"))
		return
	}
	sv.Reach("accepted-by-the-rules")
	sv.Assert("accepted", cls == "ok")
	if cls != "ok" {
		return
	}
	sv.Assert("inferred-type", RefTypeEq(got, want))
	vals := map[string]*val.Val{"o": AnyVal(tON, "o"), "s": AnyVal(types.Maybe(tStr), "s"), "c": AnyVal(tBool, "c"), "k": val.Str("k"),
		"xs": val.List(tLN.List(), 0), "ys": val.List(tLN.List(), 0), "oxs": val.Nothing(tLN)}
	res, c := runAll(e, expr, vals, names)
	for b := 0; b < NBackends; b++ {
		sv.Assert("never-fails-because-of-absence:"+BackendNames[b], c[b] == "ok" || IsOutOfRange(c[b]) || IsUndefinedKey(c[b]))
		if c[b] == "ok" {
			sv.Assert("well-typed:"+BackendNames[b], RefWellTyped(res[b], got) == "")
		}
	}
}
