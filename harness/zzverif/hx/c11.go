//go:build verif

package hx

import (
	"github.com/goghcrow/yae/closure"
	"github.com/goghcrow/yae/compiler"
	"github.com/goghcrow/yae/parser/ast"
	"github.com/goghcrow/yae/parser/oper"
	"github.com/goghcrow/yae/parser/pos"
	"github.com/goghcrow/yae/types"
	"github.com/goghcrow/yae/val"
	"github.com/goghcrow/yae/vm"
	"github.com/goghcrow/yae/zzverif/sv"
)

// An independent bytecode verifier: decodes a program completely, checks
// operands, jump targets and a path-independent stack depth, recursively for
// deferred-argument bodies. "" = safe, otherwise the first problem.

type insn struct {
	pops, pushes int
	size         int // bytes including the opcode
	jump         int // -1 none, else target
	fall         bool
}

func u16(code []byte, at int) (int, bool) {
	if at+2 > len(code) {
		return 0, false
	}
	return int(code[at])<<8 | int(code[at+1]), true
}

func endsWith(s, suf string) bool { return len(s) >= len(suf) && s[len(s)-len(suf):] == suf }

func decode(p vm.ZZProgram, pc int) (insn, string) {
	code := p.Code
	op := int(code[pc])
	if op >= vm.ZZ_END {
		return insn{}, "unknown instruction " + itoa(op) + " at " + itoa(pc)
	}
	name := vm.ZZOpName(op)
	konst := func(at int) (interface{}, string) {
		k, ok := u16(code, at)
		if !ok {
			return nil, "truncated operand at " + itoa(at)
		}
		if k >= len(p.Data) {
			return nil, "constant index " + itoa(k) + " out of range at " + itoa(at)
		}
		return p.Data[k], ""
	}
	switch op {
	case vm.ZZ_OP_RETURN:
		return insn{pops: 1, size: 1, jump: -1}, ""
	case vm.ZZ_OP_NOP:
		return insn{size: 1, jump: -1, fall: true}, ""
	case vm.ZZ_OP_CONST:
		c, why := konst(pc + 1)
		if why != "" {
			return insn{}, why
		}
		if v, ok := c.(*val.Val); !ok || v == nil {
			return insn{}, "OP_CONST operand is not a value at " + itoa(pc)
		}
		return insn{pushes: 1, size: 3, jump: -1, fall: true}, ""
	case vm.ZZ_OP_LOAD:
		c, why := konst(pc + 1)
		if why != "" {
			return insn{}, why
		}
		if _, ok := c.(string); !ok {
			return insn{}, "OP_LOAD operand is not a name at " + itoa(pc)
		}
		return insn{pushes: 1, size: 3, jump: -1, fall: true}, ""
	case vm.ZZ_OP_OBJ_LOAD:
		c, why := konst(pc + 1)
		if why != "" {
			return insn{}, why
		}
		if _, ok := c.(string); !ok {
			return insn{}, "OP_OBJ_LOAD operand is not a field name at " + itoa(pc)
		}
		return insn{pops: 1, pushes: 1, size: 3, jump: -1, fall: true}, ""
	case vm.ZZ_OP_NEW_LIST, vm.ZZ_OP_NEW_MAP:
		c, why := konst(pc + 1)
		if why != "" {
			return insn{}, why
		}
		t, ok := c.(*types.Type)
		if !ok || t == nil {
			return insn{}, "literal operand is not a type at " + itoa(pc)
		}
		n, ok2 := u16(code, pc+3)
		if !ok2 {
			return insn{}, "truncated size at " + itoa(pc)
		}
		if op == vm.ZZ_OP_NEW_LIST {
			if t.Kind != types.KList {
				return insn{}, "OP_NEW_LIST with a non-list type at " + itoa(pc)
			}
			return insn{pops: n, pushes: 1, size: 5, jump: -1, fall: true}, ""
		}
		if t.Kind != types.KMap {
			return insn{}, "OP_NEW_MAP with a non-map type at " + itoa(pc)
		}
		return insn{pops: 2 * n, pushes: 1, size: 5, jump: -1, fall: true}, ""
	case vm.ZZ_OP_NEW_OBJ:
		c, why := konst(pc + 1)
		if why != "" {
			return insn{}, why
		}
		t, ok := c.(*types.Type)
		if !ok || t == nil || t.Kind != types.KObj {
			return insn{}, "OP_NEW_OBJ operand is not an object type at " + itoa(pc)
		}
		return insn{pops: len(t.Obj().Fields), pushes: 1, size: 3, jump: -1, fall: true}, ""
	case vm.ZZ_OP_CALL_BY_VALUE, vm.ZZ_OP_CALL_BY_NEED:
		c, why := konst(pc + 1)
		if why != "" {
			return insn{}, why
		}
		f, ok := c.(*val.Val)
		if !ok || f == nil || f.Type == nil || f.Type.Kind != types.KFun {
			return insn{}, "call operand is not a function at " + itoa(pc)
		}
		if pc+3 >= len(code) {
			return insn{}, "truncated argc at " + itoa(pc)
		}
		argc := int(code[pc+3])
		if argc != len(f.Type.Fun().Param) {
			return insn{}, "argument count " + itoa(argc) + " differs from arity at " + itoa(pc)
		}
		if (op == vm.ZZ_OP_CALL_BY_NEED) != f.Fun().Lazy {
			return insn{}, "call convention does not match the callee's laziness at " + itoa(pc)
		}
		return insn{pops: argc, pushes: 1, size: 4, jump: -1, fall: true}, ""
	case vm.ZZ_OP_DYNAMIC_CALL:
		if pc+1 >= len(code) {
			return insn{}, "truncated argc at " + itoa(pc)
		}
		return insn{pops: int(code[pc+1]) + 1, pushes: 1, size: 2, jump: -1, fall: true}, ""
	case vm.ZZ_OP_IF_TRUE, vm.ZZ_OP_JUMP:
		t, ok := u16(code, pc+1)
		if !ok {
			return insn{}, "truncated jump at " + itoa(pc)
		}
		if op == vm.ZZ_OP_JUMP {
			return insn{size: 3, jump: t}, ""
		}
		return insn{pops: 1, size: 3, jump: t, fall: true}, ""
	case vm.ZZ_OP_LIST_LOAD, vm.ZZ_OP_MAP_LOAD, vm.ZZ_OP_GET_MAYBE:
		return insn{pops: 2, pushes: 1, size: 1, jump: -1, fall: true}, ""
	case vm.ZZ_OP_LOGICAL_NOT:
		return insn{pops: 1, pushes: 1, size: 1, jump: -1, fall: true}, ""
	}
	// the remaining intrinsics: arity from the name
	switch {
	case endsWith(name, "_NUM_NUM"), endsWith(name, "_STR_STR"), endsWith(name, "_TIME_TIME"), endsWith(name, "_BOOL_BOOL"), endsWith(name, "_LIST_LIST"), endsWith(name, "_MAP_MAP"):
		return insn{pops: 2, pushes: 1, size: 1, jump: -1, fall: true}, ""
	case endsWith(name, "_NUM"), endsWith(name, "_STR"), endsWith(name, "_LIST"), endsWith(name, "_MAP"):
		return insn{pops: 1, pushes: 1, size: 1, jump: -1, fall: true}, ""
	}
	return insn{}, "instruction " + name + " is not known to the verifier"
}

func verifyProgram(p vm.ZZProgram, depthLimit int) string {
	code := p.Code
	if len(code) == 0 {
		return "empty code"
	}
	// pass 1: instruction boundaries
	boundary := make([]bool, len(code)+1)
	var ins = map[int]insn{}
	for pc := 0; pc < len(code); {
		boundary[pc] = true
		in, why := decode(p, pc)
		if why != "" {
			return why
		}
		if pc+in.size > len(code) {
			return "truncated instruction at " + itoa(pc)
		}
		ins[pc] = in
		pc += in.size
	}
	// pass 2: stack depth along every path (forward jumps only => a DAG)
	depth := make([]int, len(code))
	seen := make([]bool, len(code))
	type item struct{ pc, d int }
	work := []item{{0, 0}}
	returns := 0
	for len(work) > 0 {
		it := work[len(work)-1]
		work = work[:len(work)-1]
		pc, d := it.pc, it.d
		for {
			if pc >= len(code) {
				return "control runs off the end of the code"
			}
			if seen[pc] {
				if depth[pc] != d {
					return "stack depth differs between paths at " + itoa(pc)
				}
				break
			}
			seen[pc], depth[pc] = true, d
			in := ins[pc]
			if d < in.pops {
				return "stack underflow at " + itoa(pc)
			}
			d = d - in.pops + in.pushes
			if int(code[pc]) == vm.ZZ_OP_RETURN {
				if d != 0 || depth[pc] != 1 {
					return "stack depth at return is " + itoa(depth[pc]) + ", not 1"
				}
				returns++
				break
			}
			if in.jump >= 0 {
				if in.jump <= pc {
					return "backward or self jump at " + itoa(pc)
				}
				if in.jump >= len(code) || !boundary[in.jump] {
					return "jump into the middle of an instruction or outside the code at " + itoa(pc)
				}
				if in.fall {
					work = append(work, item{in.jump, d})
				} else {
					pc = in.jump
					continue
				}
			}
			pc += in.size
		}
	}
	if returns == 0 {
		return "no return reached"
	}
	// deferred-argument bodies
	if depthLimit > 0 {
		for _, c := range p.Data {
			if body, ok := vm.ZZThunk(c); ok {
				if why := verifyProgram(body, depthLimit-1); why != "" {
					return "in a deferred argument: " + why
				}
			}
		}
	}
	return ""
}

func repeatSrc(el string, n int, sep string) string {
	out := ""
	for i := 0; i < n; i++ {
		if i > 0 {
			out += sep
		}
		out += el
	}
	return out
}

// H11_verify: every program of the template families compiles to bytecode
// that the independent verifier accepts.
func H11_verify() {
	e := NewEngine()
	tr := &tracer{}
	tr.register(e)
	nOps, nLazy, nOpt := len(opProgs), len(lazyProgs), len(optProgs)
	k := sv.Choice("prog", nOps+nLazy+nOpt)
	var src string
	var tys map[string]*types.Type
	var names []string
	switch {
	case k < nOps:
		p := opProgs[k]
		src, tys, names = p.src, progEnv(p), p.names
	case k < nOps+nLazy:
		src = lazyProgs[k-nOps].src
		f3t := types.Fun("f3", []*types.Type{types.Num, types.Num, types.Num}, types.Num)
		tys = map[string]*types.Type{"a": types.Num, "b": types.Num, "c": types.Bool, "d": types.Bool, "fs": types.List(f3t)}
		names = []string{"a", "b", "c", "d", "fs"}
	default:
		p := optProgs[k-nOps-nLazy]
		src, names = p.src, p.names
		tys = map[string]*types.Type{}
		for i, n := range p.names {
			tys[n] = p.tys[i]
		}
	}
	expr, _, cls := e.Front(src, tys, names)
	sv.Assert("accepted", cls == "ok")
	var prog vm.ZZProgram
	ccls := sv.Outcome(func() { prog = vm.ZZCompileProgram(expr, e.Rt) })
	sv.Assert("compiles", ccls == "ok")
	why := verifyProgram(prog, 4)
	if why != "" {
		sv.Logf("%s: %s", src, why)
	}
	sv.Assert("bytecode-is-structurally-safe", why == "")
	sv.Reach("verified")
}

// wideProgram: literals, calls and conditionals around the stack-growth and
// operand-width boundaries either verify and evaluate like the closure
// compiler, or are refused at compile time exactly beyond the capacities.
var tFlags = ObjT([]string{"flag", "other"}, []*types.Type{types.Bool, types.Bool})

func wideProgram(mode int) {
	checkEquivalence := mode == 1
	e := NewEngine()
	sizes := []int{41, 42, 43, 255, 256, 257, 541, 542, 543}
	if sv.Thorough() {
		// (the 64 KiB boundary is form 8's, built as an AST: a 65 536-element
		// source text costs the quadratic lexer minutes natively and more here)
		sizes = append(sizes, 1043, 4099)
	}
	form := sv.Choice("form", 9)
	var n int
	if form == 8 {
		// a conditional whose branches are just below / just beyond 64 KiB of
		// bytecode, built as an AST (the lexer is quadratic in the source
		// length and not what is examined here)
		n = []int{8100, 8200, 16400}[sv.Choice("n64k", 3)]
		sv.MoreFuel(600_000_000)
	} else if form >= 6 {
		// constant-pool index sweep: the operand of the instruction just before
		// a prefix operator takes every low byte from 16 to 48
		n = 14 + sv.Choice("pool", 34)
	} else {
		n = sizes[sv.Choice("n", len(sizes))]
	}
	var src string
	capacity := 65535
	switch form {
	case 0:
		src = "[" + repeatSrc("a", n, ", ") + "]"
	case 1:
		src = "len([" + repeatSrc("\"k\": a", n, ", ") + "])"
	case 2: // n live stack slots: nested additions to the right
		if n > 1043 {
			n = 1043 // (deeper nests exceed the engine's call-depth model long before the native stack)
		}
		src = repeatSrc("a + (", n, "") + "a" + repeatSrc(")", n, "")
	case 3: // a conditional whose branches span more than 255 / 65535 bytes
		src = "if(c, " + repeatSrc("a", n, " + ") + ", " + repeatSrc("b", n, " * ") + ")"
	case 4: // many distinct constants
		parts := ""
		for i := 0; i < n; i++ {
			if i > 0 {
				parts += " + "
			}
			parts += itoa(i)
		}
		src = parts
	case 6, 7: // n distinct constants, then a negated variable / member whose name constant follows them
		parts := ""
		for i := 0; i < n; i++ {
			if i > 0 {
				parts += " + "
			}
			parts += itoa(i)
		}
		if form == 6 {
			src = parts + " > a || !c"
		} else {
			src = parts + " > a || !o.flag && !o.other"
		}
	default: // nested lazy calls n deep (quick: capped)
		m := n
		if m > 60 {
			m = 60
		}
		src = repeatSrc("if(c, a, ", m, "") + "b" + repeatSrc(")", m, "")
	}
	tys := map[string]*types.Type{"a": types.Num, "b": types.Num, "c": types.Bool, "o": tFlags}
	names := []string{"a", "b", "c", "o"}
	var expr ast.Expr
	var ty *types.Type
	var cls string
	if form == 8 {
		// a balanced tree of n leaves: the same amount of bytecode as a chain,
		// without n nested calls in the compiler
		var sumN func(name string, k int) ast.Expr
		sumN = func(name string, k int) ast.Expr {
			if k == 1 {
				return ast.Var(name, pos.Unknown)
			}
			return ast.Binary(ast.Var("+", pos.Unknown), oper.INFIX_L, sumN(name, k/2), sumN(name, k-k/2), pos.Unknown)
		}
		sum := func(name string) ast.Expr { return sumN(name, n) }
		tree := ast.Call(ast.Var("if", pos.Unknown), []ast.Expr{ast.Var("c", pos.Unknown), sum("a"), sum("b")}, 0, pos.Unknown)
		cls = sv.Outcome(func() { expr, ty = e.CheckAST(tree, tys, names) })
	} else {
		expr, ty, cls = e.Front(src, tys, names)
	}
	sv.Assert("accepted", cls == "ok")
	var prog vm.ZZProgram
	ccls := sv.Outcome(func() { prog = vm.ZZCompileProgram(expr, e.Rt) })
	over := false
	switch form {
	case 0, 1:
		over = n > capacity
	case 3, 8:
		over = 2*4*n > capacity // each operand is OP_LOAD + u16 and an intrinsic byte
	case 4:
		over = n+8 > capacity
	}
	if ccls != "ok" {
		sv.Reach("refused")
		sv.Assert("refused-only-beyond-capacity", over && ccls == "assert:overflow")
		return
	}
	sv.Reach("compiled")
	why := verifyProgram(prog, 2)
	if why != "" {
		sv.Logf("n=%d form=%d: %s", n, form, why)
	}
	sv.Assert("bytecode-is-structurally-safe", why == "")
	if why != "" {
		// not executed: bytecode with, say, a backward jump may not terminate
		return
	}
	if form == 8 || mode == 4 {
		// tens of thousands of instructions on four back ends: the structure
		// is what this form (and the termination claim) is about
		return
	}
	a, b := sv.Float64("a"), sv.Float64("b")
	cv := val.False
	if sv.Bool("c") {
		cv = val.True
	}
	ov := val.Obj(tFlags.Obj()).Obj()
	ov.V[0], ov.V[1] = cv, val.False
	vals := map[string]*val.Val{"a": val.Num(a), "b": val.Num(b), "c": cv, "o": ov.Vl()}
	res, c := runAll(e, expr, vals, names)
	if checkEquivalence {
		// the call-threaded loop stops after 1024 instructions (known finding)
		sv.Region("more-than-1024-instructions", countInstructions(prog) >= 1024)
		agree(res, c)
		return
	}
	if mode == 3 {
		// C01: every component of a wide result is present and well typed
		for b := 0; b < NBackends; b++ {
			if c[b] == "ok" {
				sv.Assert("wide-result-well-typed:"+BackendNames[b], RefWellTyped(res[b], ty) == "")
			}
		}
		return
	}
	if mode == 2 {
		// C02: these are total programs; none may fail (the call-threaded
		// loop's 1024-instruction limit is the recorded finding D4, under C03)
		over := countInstructions(prog) >= 1024
		for b := 0; b < NBackends; b++ {
			if b == 1 && over {
				continue
			}
			sv.Assert("total-program-evaluates:"+BackendNames[b], c[b] == "ok")
		}
		return
	}
	sv.Assert("evaluates-on-the-switch-loop", c[0] == "ok" && c[2] == "ok" && RefSameVal(res[0], res[2]))
}

func countInstructions(p vm.ZZProgram) int {
	n := 0
	for pc := 0; pc < len(p.Code); {
		in, why := decode(p, pc)
		if why != "" {
			return n
		}
		n++
		pc += in.size
	}
	return n
}

func H11_wide() { wideProgram(0) }

// H01_wide: results of wide / deep programs have every component present and
// of the declared type (stack growth must not lose slots).
func H01_wide() { wideProgram(3) }

// H02_wide: wide and deep (total) programs never fail on any back end - the
// stack-growth path and the operand-width asserts.
func H02_wide() { wideProgram(2) }

// H12_wide: termination. A compiled wide program - in particular a
// conditional whose branches approach and exceed 64 KiB - is either refused
// at compile time or can only run forward (every jump verified to go to a
// later instruction), so that no short input makes evaluation spin.
func H12_wide() { wideProgram(4) }

// H03_wide: the same wide / deep programs evaluate alike on all back ends.
func H03_wide() { wideProgram(1) }


// H11_sequence: a compiled program stays what it was when other programs are
// compiled after it. The constant pool is shared between a program and the
// bodies of its deferred arguments; a compiler that recycles its buffers must
// not leave an earlier program's deferred bodies pointing at a pool that a
// later compilation rewrites. Two or three programs with host lazy functions
// are compiled one after the other through vm.Compile (the entry the facade
// uses); every one of them is then run and compared with the closure
// compiler's result.
func H11_sequence() {
	e := NewEngine()
	e.Register(val.LazyFun(types.Fun("both", []*types.Type{types.Num, types.Num}, types.Num), func(args ...*val.Val) *val.Val {
		return val.Num(args[0].Fun().Call().Num().V*10 + args[1].Fun().Call().Num().V)
	}))
	e.Register(val.LazyFun(types.Fun("pick", []*types.Type{types.Bool, types.Num, types.Num}, types.Num), func(args ...*val.Val) *val.Val {
		if args[0].Fun().Call().Bool().V {
			return args[1].Fun().Call()
		}
		return args[2].Fun().Call()
	}))
	srcs := []string{"both(a, b)", "both(b + 1, a)", "pick(c, a, b * 2)", "both(pick(c, a, b), 7)", "a + b", "both(1, 2) + both(a, 4)"}
	tys := map[string]*types.Type{"a": tNum, "b": tNum, "c": tBool}
	names := []string{"a", "b", "c"}
	n := 2 + sv.Choice("programs", 2)
	var exprs []ast.Expr
	var cls []compiler.Closure
	for k := 0; k < n; k++ {
		src := srcs[sv.Choice("prog"+itoa(k), len(srcs))]
		expr, _, c := e.Front(src, tys, names)
		sv.Assert("accepted", c == "ok")
		exprs = append(exprs, expr)
		var cl compiler.Closure
		cc := sv.Outcome(func() { cl = Backend(0)(expr, e.Rt) })
		sv.Assert("compiles", cc == "ok")
		cls = append(cls, cl)
	}
	a, b := sv.Float64("a"), sv.Float64("b")
	cv := val.False
	if sv.Bool("c") {
		cv = val.True
	}
	vals := map[string]*val.Val{"a": val.Num(a), "b": val.Num(b), "c": cv}
	mkEnv := func() *val.Env {
		ve := val.NewEnv()
		for _, nm := range names {
			ve.Put(nm, vals[nm])
		}
		return ve.Inherit(e.Rt)
	}
	for k := 0; k < n; k++ {
		var got, want *val.Val
		kk := k
		g := sv.Outcome(func() { got = cls[kk](mkEnv()) })
		w := sv.Outcome(func() { want = closure.Compile(exprs[kk], e.Rt)(mkEnv()) })
		sv.Assert("earlier-program-still-runs-after-later-compilations", g == w)
		if g == "ok" && w == "ok" {
			sv.Assert("earlier-program-still-means-the-same", RefSameVal(got, want))
		}
	}
	sv.Reach("ran-all")
}

// H11_thunks: conditionals inside the deferred arguments of host lazy
// functions, themselves inside the branches of conditionals. The main program
// and each deferred body have their own code buffer (each starting at offset
// 0) and share one compiler: jump patching must never confuse an offset of one
// buffer with the same offset of another. The family varies the lengths of
// the outer condition and of the inner branches so that buffers of equal
// length occur.
func H11_thunks() {
	e := NewEngine()
	e.Register(val.LazyFun(types.Fun("lz1", []*types.Type{types.Num}, types.Num), func(args ...*val.Val) *val.Val { return args[0].Fun().Call() }))
	e.Register(val.Fun(types.Fun("pair", []*types.Type{types.Num, types.Num}, types.Num), func(args ...*val.Val) *val.Val {
		return val.Num(args[0].Num().V*100 + args[1].Num().V)
	}))
	conds := []string{"c", "!c", "!(!c)", "a > 0", "-a > -b"}
	arms := []string{"a", "-a", "-a - b"}
	outer := conds[sv.Choice("outer", len(conds))]
	inner := conds[sv.Choice("inner", len(conds))]
	x, y := arms[sv.Choice("then", len(arms))], arms[sv.Choice("else", len(arms))]
	var src string
	switch sv.Choice("shape", 4) {
	case 0:
		src = "if(" + outer + ", lz1(if(" + inner + ", " + x + ", " + y + ")), b)"
	case 1:
		src = "if(" + outer + ", b, lz1(if(" + inner + ", " + x + ", " + y + ")))"
	case 2:
		src = "pair(if(" + outer + ", a, b), lz1(if(" + inner + ", " + x + ", " + y + ")))"
	default:
		src = "if(" + outer + ", lz1(" + inner + " ? " + x + " : " + y + "), 0) + lz1(if(" + inner + ", " + y + ", " + x + "))"
	}
	tys := map[string]*types.Type{"a": tNum, "b": tNum, "c": tBool, "d": tBool}
	names := []string{"a", "b", "c", "d"}
	expr, _, cls := e.Front(src, tys, names)
	sv.Assert("accepted", cls == "ok")
	var prog vm.ZZProgram
	ccls := sv.Outcome(func() { prog = vm.ZZCompileProgram(expr, e.Rt) })
	sv.Assert("compiles", ccls == "ok")
	why := verifyProgram(prog, 4)
	if why != "" {
		sv.Logf("%s: %s", src, why)
	}
	sv.Assert("bytecode-is-structurally-safe", why == "")
	if why != "" {
		return
	}
	// structure is what this family is about: concrete operands, both truth values
	bv := func(x int) *val.Val {
		if x == 1 {
			return val.True
		}
		return val.False
	}
	vals := map[string]*val.Val{"a": val.Num(1.5), "b": val.Num(-2), "c": bv(sv.Choice("c", 2)), "d": val.True}
	res, c := runAll(e, expr, vals, names)
	agree(res, c)
	sv.Reach("verified")
}
