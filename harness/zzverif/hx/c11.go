//go:build verif

package hx

import (
	"github.com/goghcrow/yae/types"
	"github.com/goghcrow/yae/val"
	"github.com/goghcrow/yae/vm"
	"github.com/goghcrow/yae/zzverif/sv"
)

// An independent bytecode verifier: decodes a program completely, checks
// operands, jump targets and a path-independent stack depth, recursively for
// deferred-argument bodies. "" = safe, otherwise the first problem.

type insn struct {
	pops, pushes int
	size         int // bytes including the opcode
	jump         int // -1 none, else target
	fall         bool
}

func u16(code []byte, at int) (int, bool) {
	if at+2 > len(code) {
		return 0, false
	}
	return int(code[at])<<8 | int(code[at+1]), true
}

func endsWith(s, suf string) bool { return len(s) >= len(suf) && s[len(s)-len(suf):] == suf }

func decode(p vm.ZZProgram, pc int) (insn, string) {
	code := p.Code
	op := int(code[pc])
	if op >= vm.ZZ_END {
		return insn{}, "unknown instruction " + itoa(op) + " at " + itoa(pc)
	}
	name := vm.ZZOpName(op)
	konst := func(at int) (interface{}, string) {
		k, ok := u16(code, at)
		if !ok {
			return nil, "truncated operand at " + itoa(at)
		}
		if k >= len(p.Data) {
			return nil, "constant index " + itoa(k) + " out of range at " + itoa(at)
		}
		return p.Data[k], ""
	}
	switch op {
	case vm.ZZ_OP_RETURN:
		return insn{pops: 1, size: 1, jump: -1}, ""
	case vm.ZZ_OP_NOP:
		return insn{size: 1, jump: -1, fall: true}, ""
	case vm.ZZ_OP_CONST:
		c, why := konst(pc + 1)
		if why != "" {
			return insn{}, why
		}
		if v, ok := c.(*val.Val); !ok || v == nil {
			return insn{}, "OP_CONST operand is not a value at " + itoa(pc)
		}
		return insn{pushes: 1, size: 3, jump: -1, fall: true}, ""
	case vm.ZZ_OP_LOAD:
		c, why := konst(pc + 1)
		if why != "" {
			return insn{}, why
		}
		if _, ok := c.(string); !ok {
			return insn{}, "OP_LOAD operand is not a name at " + itoa(pc)
		}
		return insn{pushes: 1, size: 3, jump: -1, fall: true}, ""
	case vm.ZZ_OP_OBJ_LOAD:
		c, why := konst(pc + 1)
		if why != "" {
			return insn{}, why
		}
		if _, ok := c.(string); !ok {
			return insn{}, "OP_OBJ_LOAD operand is not a field name at " + itoa(pc)
		}
		return insn{pops: 1, pushes: 1, size: 3, jump: -1, fall: true}, ""
	case vm.ZZ_OP_NEW_LIST, vm.ZZ_OP_NEW_MAP:
		c, why := konst(pc + 1)
		if why != "" {
			return insn{}, why
		}
		t, ok := c.(*types.Type)
		if !ok || t == nil {
			return insn{}, "literal operand is not a type at " + itoa(pc)
		}
		n, ok2 := u16(code, pc+3)
		if !ok2 {
			return insn{}, "truncated size at " + itoa(pc)
		}
		if op == vm.ZZ_OP_NEW_LIST {
			if t.Kind != types.KList {
				return insn{}, "OP_NEW_LIST with a non-list type at " + itoa(pc)
			}
			return insn{pops: n, pushes: 1, size: 5, jump: -1, fall: true}, ""
		}
		if t.Kind != types.KMap {
			return insn{}, "OP_NEW_MAP with a non-map type at " + itoa(pc)
		}
		return insn{pops: 2 * n, pushes: 1, size: 5, jump: -1, fall: true}, ""
	case vm.ZZ_OP_NEW_OBJ:
		c, why := konst(pc + 1)
		if why != "" {
			return insn{}, why
		}
		t, ok := c.(*types.Type)
		if !ok || t == nil || t.Kind != types.KObj {
			return insn{}, "OP_NEW_OBJ operand is not an object type at " + itoa(pc)
		}
		return insn{pops: len(t.Obj().Fields), pushes: 1, size: 3, jump: -1, fall: true}, ""
	case vm.ZZ_OP_CALL_BY_VALUE, vm.ZZ_OP_CALL_BY_NEED:
		c, why := konst(pc + 1)
		if why != "" {
			return insn{}, why
		}
		f, ok := c.(*val.Val)
		if !ok || f == nil || f.Type == nil || f.Type.Kind != types.KFun {
			return insn{}, "call operand is not a function at " + itoa(pc)
		}
		if pc+3 >= len(code) {
			return insn{}, "truncated argc at " + itoa(pc)
		}
		argc := int(code[pc+3])
		if argc != len(f.Type.Fun().Param) {
			return insn{}, "argument count " + itoa(argc) + " differs from arity at " + itoa(pc)
		}
		if (op == vm.ZZ_OP_CALL_BY_NEED) != f.Fun().Lazy {
			return insn{}, "call convention does not match the callee's laziness at " + itoa(pc)
		}
		return insn{pops: argc, pushes: 1, size: 4, jump: -1, fall: true}, ""
	case vm.ZZ_OP_DYNAMIC_CALL:
		if pc+1 >= len(code) {
			return insn{}, "truncated argc at " + itoa(pc)
		}
		return insn{pops: int(code[pc+1]) + 1, pushes: 1, size: 2, jump: -1, fall: true}, ""
	case vm.ZZ_OP_IF_TRUE, vm.ZZ_OP_JUMP:
		t, ok := u16(code, pc+1)
		if !ok {
			return insn{}, "truncated jump at " + itoa(pc)
		}
		if op == vm.ZZ_OP_JUMP {
			return insn{size: 3, jump: t}, ""
		}
		return insn{pops: 1, size: 3, jump: t, fall: true}, ""
	case vm.ZZ_OP_LIST_LOAD, vm.ZZ_OP_MAP_LOAD, vm.ZZ_OP_GET_MAYBE:
		return insn{pops: 2, pushes: 1, size: 1, jump: -1, fall: true}, ""
	case vm.ZZ_OP_LOGICAL_NOT:
		return insn{pops: 1, pushes: 1, size: 1, jump: -1, fall: true}, ""
	}
	// the remaining intrinsics: arity from the name
	switch {
	case endsWith(name, "_NUM_NUM"), endsWith(name, "_STR_STR"), endsWith(name, "_TIME_TIME"), endsWith(name, "_BOOL_BOOL"), endsWith(name, "_LIST_LIST"), endsWith(name, "_MAP_MAP"):
		return insn{pops: 2, pushes: 1, size: 1, jump: -1, fall: true}, ""
	case endsWith(name, "_NUM"), endsWith(name, "_STR"), endsWith(name, "_LIST"), endsWith(name, "_MAP"):
		return insn{pops: 1, pushes: 1, size: 1, jump: -1, fall: true}, ""
	}
	return insn{}, "instruction " + name + " is not known to the verifier"
}

func verifyProgram(p vm.ZZProgram, depthLimit int) string {
	code := p.Code
	if len(code) == 0 {
		return "empty code"
	}
	// pass 1: instruction boundaries
	boundary := make([]bool, len(code)+1)
	var ins = map[int]insn{}
	for pc := 0; pc < len(code); {
		boundary[pc] = true
		in, why := decode(p, pc)
		if why != "" {
			return why
		}
		if pc+in.size > len(code) {
			return "truncated instruction at " + itoa(pc)
		}
		ins[pc] = in
		pc += in.size
	}
	// pass 2: stack depth along every path (forward jumps only => a DAG)
	depth := make([]int, len(code))
	seen := make([]bool, len(code))
	type item struct{ pc, d int }
	work := []item{{0, 0}}
	returns := 0
	for len(work) > 0 {
		it := work[len(work)-1]
		work = work[:len(work)-1]
		pc, d := it.pc, it.d
		for {
			if pc >= len(code) {
				return "control runs off the end of the code"
			}
			if seen[pc] {
				if depth[pc] != d {
					return "stack depth differs between paths at " + itoa(pc)
				}
				break
			}
			seen[pc], depth[pc] = true, d
			in := ins[pc]
			if d < in.pops {
				return "stack underflow at " + itoa(pc)
			}
			d = d - in.pops + in.pushes
			if int(code[pc]) == vm.ZZ_OP_RETURN {
				if d != 0 || depth[pc] != 1 {
					return "stack depth at return is " + itoa(depth[pc]) + ", not 1"
				}
				returns++
				break
			}
			if in.jump >= 0 {
				if in.jump <= pc {
					return "backward or self jump at " + itoa(pc)
				}
				if in.jump >= len(code) || !boundary[in.jump] {
					return "jump into the middle of an instruction or outside the code at " + itoa(pc)
				}
				if in.fall {
					work = append(work, item{in.jump, d})
				} else {
					pc = in.jump
					continue
				}
			}
			pc += in.size
		}
	}
	if returns == 0 {
		return "no return reached"
	}
	// deferred-argument bodies
	if depthLimit > 0 {
		for _, c := range p.Data {
			if body, ok := vm.ZZThunk(c); ok {
				if why := verifyProgram(body, depthLimit-1); why != "" {
					return "in a deferred argument: " + why
				}
			}
		}
	}
	return ""
}

func repeatSrc(el string, n int, sep string) string {
	out := ""
	for i := 0; i < n; i++ {
		if i > 0 {
			out += sep
		}
		out += el
	}
	return out
}

// H11_verify: every program of the template families compiles to bytecode
// that the independent verifier accepts.
func H11_verify() {
	e := NewEngine()
	tr := &tracer{}
	tr.register(e)
	nOps, nLazy, nOpt := len(opProgs), len(lazyProgs), len(optProgs)
	k := sv.Choice("prog", nOps+nLazy+nOpt)
	var src string
	var tys map[string]*types.Type
	var names []string
	switch {
	case k < nOps:
		p := opProgs[k]
		src, tys, names = p.src, progEnv(p), p.names
	case k < nOps+nLazy:
		src = lazyProgs[k-nOps].src
		f3t := types.Fun("f3", []*types.Type{types.Num, types.Num, types.Num}, types.Num)
		tys = map[string]*types.Type{"a": types.Num, "b": types.Num, "c": types.Bool, "d": types.Bool, "fs": types.List(f3t)}
		names = []string{"a", "b", "c", "d", "fs"}
	default:
		p := optProgs[k-nOps-nLazy]
		src, names = p.src, p.names
		tys = map[string]*types.Type{}
		for i, n := range p.names {
			tys[n] = p.tys[i]
		}
	}
	expr, _, cls := e.Front(src, tys, names)
	sv.Assert("accepted", cls == "ok")
	var prog vm.ZZProgram
	ccls := sv.Outcome(func() { prog = vm.ZZCompileProgram(expr, e.Rt) })
	sv.Assert("compiles", ccls == "ok")
	why := verifyProgram(prog, 4)
	if why != "" {
		sv.Logf("%s: %s", src, why)
	}
	sv.Assert("bytecode-is-structurally-safe", why == "")
	sv.Reach("verified")
}

// wideProgram: literals, calls and conditionals around the stack-growth and
// operand-width boundaries either verify and evaluate like the closure
// compiler, or are refused at compile time exactly beyond the capacities.
func wideProgram(mode int) {
	checkEquivalence := mode == 1
	e := NewEngine()
	sizes := []int{41, 42, 43, 255, 256, 257, 541, 542, 543}
	if sv.Thorough() {
		sizes = append(sizes, 1043, 65535, 65536)
	}
	n := sizes[sv.Choice("n", len(sizes))]
	form := sv.Choice("form", 6)
	var src string
	capacity := 65535
	switch form {
	case 0:
		src = "[" + repeatSrc("a", n, ", ") + "]"
	case 1:
		src = "len([" + repeatSrc("\"k\": a", n, ", ") + "])"
	case 2: // n live stack slots: nested additions to the right
		src = repeatSrc("a + (", n, "") + "a" + repeatSrc(")", n, "")
	case 3: // a conditional whose branches span more than 255 / 65535 bytes
		src = "if(c, " + repeatSrc("a", n, " + ") + ", " + repeatSrc("b", n, " * ") + ")"
	case 4: // many distinct constants
		parts := ""
		for i := 0; i < n; i++ {
			if i > 0 {
				parts += " + "
			}
			parts += itoa(i)
		}
		src = parts
	default: // nested lazy calls n deep (quick: capped)
		m := n
		if m > 60 {
			m = 60
		}
		src = repeatSrc("if(c, a, ", m, "") + "b" + repeatSrc(")", m, "")
	}
	tys := map[string]*types.Type{"a": types.Num, "b": types.Num, "c": types.Bool}
	names := []string{"a", "b", "c"}
	expr, ty, cls := e.Front(src, tys, names)
	sv.Assert("accepted", cls == "ok")
	var prog vm.ZZProgram
	ccls := sv.Outcome(func() { prog = vm.ZZCompileProgram(expr, e.Rt) })
	over := false
	switch form {
	case 0, 1:
		over = n > capacity
	case 3:
		over = 2*4*n > capacity // each operand is OP_LOAD + u16 and an intrinsic byte
	case 4:
		over = n+8 > capacity
	}
	if ccls != "ok" {
		sv.Reach("refused")
		sv.Assert("refused-only-beyond-capacity", over && ccls == "assert:overflow")
		return
	}
	sv.Reach("compiled")
	why := verifyProgram(prog, 2)
	if why != "" {
		sv.Logf("n=%d form=%d: %s", n, form, why)
	}
	sv.Assert("bytecode-is-structurally-safe", why == "")
	if why != "" {
		// not executed: bytecode with, say, a backward jump may not terminate
		return
	}
	a, b := sv.Float64("a"), sv.Float64("b")
	cv := val.False
	if sv.Bool("c") {
		cv = val.True
	}
	vals := map[string]*val.Val{"a": val.Num(a), "b": val.Num(b), "c": cv}
	res, c := runAll(e, expr, vals, names)
	if checkEquivalence {
		// the call-threaded loop stops after 1024 instructions (known finding)
		sv.Region("more-than-1024-instructions", countInstructions(prog) >= 1024)
		agree(res, c)
		return
	}
	if mode == 3 {
		// C01: every component of a wide result is present and well typed
		for b := 0; b < NBackends; b++ {
			if c[b] == "ok" {
				sv.Assert("wide-result-well-typed:"+BackendNames[b], RefWellTyped(res[b], ty) == "")
			}
		}
		return
	}
	if mode == 2 {
		// C02: these are total programs; none may fail (the call-threaded
		// loop's 1024-instruction limit is the recorded finding D4, under C03)
		over := countInstructions(prog) >= 1024
		for b := 0; b < NBackends; b++ {
			if b == 1 && over {
				continue
			}
			sv.Assert("total-program-evaluates:"+BackendNames[b], c[b] == "ok")
		}
		return
	}
	sv.Assert("evaluates-on-the-switch-loop", c[0] == "ok" && c[2] == "ok" && RefSameVal(res[0], res[2]))
}

func countInstructions(p vm.ZZProgram) int {
	n := 0
	for pc := 0; pc < len(p.Code); {
		in, why := decode(p, pc)
		if why != "" {
			return n
		}
		n++
		pc += in.size
	}
	return n
}

func H11_wide() { wideProgram(0) }

// H01_wide: results of wide / deep programs have every component present and
// of the declared type (stack growth must not lose slots).
func H01_wide() { wideProgram(3) }

// H02_wide: wide and deep (total) programs never fail on any back end - the
// stack-growth path and the operand-width asserts.
func H02_wide() { wideProgram(2) }

// H03_wide: the same wide / deep programs evaluate alike on all back ends.
func H03_wide() { wideProgram(1) }

