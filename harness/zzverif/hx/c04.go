//go:build verif

package hx

import (
	"time"
	"math"
	"strconv"

	"github.com/goghcrow/yae/types"
	"github.com/goghcrow/yae/val"
	"github.com/goghcrow/yae/zzverif/sv"
)

// Reference semantics of the documented operators and built-ins, written from
// README.md and the property statement. They read the operands through the
// trivial val accessors and never call yae's fun.* implementations.

const refEps = 1e-9

func rNum(v map[string]*val.Val, n string) float64 { return v[n].Num().V }
func rStr(v map[string]*val.Val, n string) string  { return v[n].Str().V }
func rBool(v map[string]*val.Val, n string) bool   { return v[n].Bool().V }
func rList(v map[string]*val.Val, n string) []float64 {
	l := v[n].List().V
	out := make([]float64, len(l))
	for i, x := range l {
		out[i] = x.Num().V
	}
	return out
}
func rSec(v map[string]*val.Val, n string) int64 { return v[n].Time().V.Unix() }

// refTimeDiff: `time - time` is the elapsed time in seconds, sub-second part
// included (whole seconds plus nanoseconds/1e9, both truncated towards zero as
// time.Duration.Seconds documents).
func refTimeDiff(t, u time.Time) float64 {
	ds := t.Unix() - u.Unix()
	dn := int64(t.Nanosecond()) - int64(u.Nanosecond())
	if ds > 0 && dn < 0 {
		ds, dn = ds-1, dn+1000000000
	} else if ds < 0 && dn > 0 {
		ds, dn = ds+1, dn-1000000000
	}
	return float64(ds) + float64(dn)/1e9
}

func refEQ(a, b float64) bool { return math.Abs(a-b) < refEps }
func refNE(a, b float64) bool { return math.Abs(a-b) >= refEps }

func runeCount(s string) int {
	n := 0
	for range s {
		n++
	}
	return n
}

// result matchers
type refResult struct {
	kind string // num bool str
	n    float64
	b    bool
	s    string
}

func rn(x float64) refResult { return refResult{kind: "num", n: x} }
func rb(x bool) refResult    { return refResult{kind: "bool", b: x} }
func rs(x string) refResult  { return refResult{kind: "str", s: x} }

type refProg struct {
	totalProg
	pre func(v map[string]*val.Val) bool // assumption ("" semantic silence)
	ref func(v map[string]*val.Val) refResult
}

func always(map[string]*val.Val) bool { return true }

// keysApart: a and b finite and identical (IEEE ==) or more than 1 apart
func keysApart(v map[string]*val.Val) bool {
	a, b := rNum(v, "a"), rNum(v, "b")
	return sv.And(a-a == 0, b-b == 0, sv.Or(a == b, a-b > 1, b-a > 1))
}

var nn = []*types.Type{tNum, tNum}
var ab = []string{"a", "b"}

func numBin(src string, f func(a, b float64) refResult) refProg {
	return refProg{totalProg{src, ab, nn}, always, func(v map[string]*val.Val) refResult { return f(rNum(v, "a"), rNum(v, "b")) }}
}
func numUn(src string, f func(a float64) refResult) refProg {
	return refProg{totalProg{src, []string{"a"}, []*types.Type{tNum}}, always, func(v map[string]*val.Val) refResult { return f(rNum(v, "a")) }}
}

func foldMax(xs []float64) float64 {
	if len(xs) == 0 {
		return 0
	}
	m := xs[0]
	for _, x := range xs[1:] {
		m = math.Max(m, x)
	}
	return m
}
func foldMin(xs []float64) float64 {
	if len(xs) == 0 {
		return 0
	}
	m := xs[0]
	for _, x := range xs[1:] {
		m = math.Min(m, x)
	}
	return m
}

// refNumString: integer-valued numbers below 2^63 in magnitude print as the
// decimal integer, every other number in the shortest 'f' form.
func refNumString(x float64) string {
	if x == math.Trunc(x) && x >= -9223372036854775808.0 && x < 9223372036854775808.0 {
		return strconv.FormatInt(int64(x), 10)
	}
	return strconv.FormatFloat(x, 'f', -1, 64)
}

var refProgs = []refProg{
	numBin("a + b", func(a, b float64) refResult { return rn(a + b) }),
	numBin("a - b", func(a, b float64) refResult { return rn(a - b) }),
	numBin("a * b", func(a, b float64) refResult { return rn(a * b) }),
	numBin("a / b", func(a, b float64) refResult { return rn(a / b) }),
	// the sign of a zero intermediate result is observable through division
	numBin("1 / (a * b)", func(a, b float64) refResult { return rn(1 / (a * b)) }),
	numBin("1 / (a - b) + 1 / -a", func(a, b float64) refResult { return rn(1/(a-b) + 1/-a) }),
	numUn("-a", func(a float64) refResult { return rn(-a) }),
	numUn("+a", func(a float64) refResult { return rn(a) }),
	{totalProg{"a % b", ab, nn}, func(v map[string]*val.Val) bool { return int64(rNum(v, "b")) != 0 },
		func(v map[string]*val.Val) refResult { return rn(float64(int64(rNum(v, "a")) % int64(rNum(v, "b")))) }},
	numBin("a == b", func(a, b float64) refResult { return rb(refEQ(a, b)) }),
	numBin("a != b", func(a, b float64) refResult { return rb(refNE(a, b)) }),
	numBin("a < b", func(a, b float64) refResult { return rb(sv.And(a < b, refNE(a, b))) }),
	numBin("a <= b", func(a, b float64) refResult { return rb(sv.Or(a <= b, refEQ(a, b))) }),
	numBin("a > b", func(a, b float64) refResult { return rb(sv.And(a > b, refNE(a, b))) }),
	numBin("a >= b", func(a, b float64) refResult { return rb(sv.Or(a >= b, refEQ(a, b))) }),
	numUn("abs(a)", func(a float64) refResult { return rn(math.Abs(a)) }),
	numUn("ceil(a)", func(a float64) refResult { return rn(math.Ceil(a)) }),
	numUn("floor(a)", func(a float64) refResult { return rn(math.Floor(a)) }),
	numUn("round(a)", func(a float64) refResult { return rn(math.Round(a)) }),
	numBin("max(a, b)", func(a, b float64) refResult { return rn(math.Max(a, b)) }),
	numBin("min(a, b)", func(a, b float64) refResult { return rn(math.Min(a, b)) }),
	{totalProg{"max(xs)", []string{"xs"}, []*types.Type{tLN}}, always, func(v map[string]*val.Val) refResult { return rn(foldMax(rList(v, "xs"))) }},
	{totalProg{"min(xs)", []string{"xs"}, []*types.Type{tLN}}, always, func(v map[string]*val.Val) refResult { return rn(foldMin(rList(v, "xs"))) }},
	{totalProg{"len(xs)", []string{"xs"}, []*types.Type{tLN}}, always, func(v map[string]*val.Val) refResult { return rn(float64(len(rList(v, "xs")))) }},
	{totalProg{"len(s)", []string{"s"}, []*types.Type{tStr}}, always, func(v map[string]*val.Val) refResult { return rn(float64(runeCount(rStr(v, "s")))) }},
	{totalProg{"s + u", []string{"s", "u"}, []*types.Type{tStr, tStr}}, always, func(v map[string]*val.Val) refResult { return rs(rStr(v, "s") + rStr(v, "u")) }},
	{totalProg{"s == u", []string{"s", "u"}, []*types.Type{tStr, tStr}}, always, func(v map[string]*val.Val) refResult { return rb(rStr(v, "s") == rStr(v, "u")) }},
	{totalProg{"s != u", []string{"s", "u"}, []*types.Type{tStr, tStr}}, always, func(v map[string]*val.Val) refResult { return rb(rStr(v, "s") != rStr(v, "u")) }},
	{totalProg{"c == d", []string{"c", "d"}, []*types.Type{tBool, tBool}}, always, func(v map[string]*val.Val) refResult { return rb(rBool(v, "c") == rBool(v, "d")) }},
	{totalProg{"c != d", []string{"c", "d"}, []*types.Type{tBool, tBool}}, always, func(v map[string]*val.Val) refResult { return rb(rBool(v, "c") != rBool(v, "d")) }},
	{totalProg{"c && d", []string{"c", "d"}, []*types.Type{tBool, tBool}}, always, func(v map[string]*val.Val) refResult { return rb(sv.And(rBool(v, "c"), rBool(v, "d"))) }},
	{totalProg{"c || d", []string{"c", "d"}, []*types.Type{tBool, tBool}}, always, func(v map[string]*val.Val) refResult { return rb(sv.Or(rBool(v, "c"), rBool(v, "d"))) }},
	{totalProg{"!c", []string{"c"}, []*types.Type{tBool}}, always, func(v map[string]*val.Val) refResult { return rb(!rBool(v, "c")) }},
	{totalProg{"if(c, a, b)", []string{"c", "a", "b"}, []*types.Type{tBool, tNum, tNum}}, always, func(v map[string]*val.Val) refResult {
		return rn(sv.IteF(rBool(v, "c"), rNum(v, "a"), rNum(v, "b")))
	}},
	{totalProg{"c ? a : b", []string{"c", "a", "b"}, []*types.Type{tBool, tNum, tNum}}, always, func(v map[string]*val.Val) refResult {
		return rn(sv.IteF(rBool(v, "c"), rNum(v, "a"), rNum(v, "b")))
	}},
	{totalProg{"t == v", []string{"t", "v"}, []*types.Type{tTime, tTime}}, always, func(v map[string]*val.Val) refResult { return rb(rSec(v, "t") == rSec(v, "v")) }},
	{totalProg{"t != v", []string{"t", "v"}, []*types.Type{tTime, tTime}}, always, func(v map[string]*val.Val) refResult { return rb(rSec(v, "t") != rSec(v, "v")) }},
	{totalProg{"t < v", []string{"t", "v"}, []*types.Type{tTime, tTime}}, always, func(v map[string]*val.Val) refResult { return rb(rSec(v, "t") < rSec(v, "v")) }},
	{totalProg{"t <= v", []string{"t", "v"}, []*types.Type{tTime, tTime}}, always, func(v map[string]*val.Val) refResult { return rb(rSec(v, "t") <= rSec(v, "v")) }},
	{totalProg{"t > v", []string{"t", "v"}, []*types.Type{tTime, tTime}}, always, func(v map[string]*val.Val) refResult { return rb(rSec(v, "t") > rSec(v, "v")) }},
	{totalProg{"t >= v", []string{"t", "v"}, []*types.Type{tTime, tTime}}, always, func(v map[string]*val.Val) refResult { return rb(rSec(v, "t") >= rSec(v, "v")) }},
	{totalProg{"t - v", []string{"t", "v"}, []*types.Type{tTime, tTime}}, always, func(v map[string]*val.Val) refResult { return rn(refTimeDiff(v["t"].Time().V, v["v"].Time().V)) }},
	{totalProg{"get(o, d)", []string{"o", "d"}, []*types.Type{tON, tNum}}, always, func(v map[string]*val.Val) refResult {
		if p := v["o"].Maybe().V; p != nil {
			return rn(p.Num().V)
		}
		return rn(rNum(v, "d"))
	}},
	{totalProg{"get(xs, i, d)", []string{"xs", "i", "d"}, []*types.Type{tLN, tNum, tNum}}, always, func(v map[string]*val.Val) refResult {
		xs, i := rList(v, "xs"), rNum(v, "i")
		ti := math.Trunc(i)
		if sv.And(i == i, ti >= 0, ti < float64(len(xs))) {
			return rn(xs[sv.ConcreteInt(int(ti), 0, 4)])
		}
		return rn(rNum(v, "d"))
	}},
	{totalProg{"get(m, s, d)", []string{"m", "s", "d"}, []*types.Type{tMSN, tStr, tNum}}, always, func(v map[string]*val.Val) refResult {
		for k, x := range v["m"].Map().V {
			if k.String() == strconv.Quote(rStr(v, "s")) {
				return rn(x.Num().V)
			}
		}
		return rn(rNum(v, "d"))
	}},
	{totalProg{"isset(m, s)", []string{"m", "s"}, []*types.Type{tMSN, tStr}}, always, func(v map[string]*val.Val) refResult {
		for k := range v["m"].Map().V {
			if k.String() == strconv.Quote(rStr(v, "s")) {
				return rb(true)
			}
		}
		return rb(false)
	}},
	{totalProg{"len(m)", []string{"m"}, []*types.Type{tMSN}}, always, func(v map[string]*val.Val) refResult { return rn(float64(len(v["m"].Map().V))) }},
	{totalProg{"string(a)", []string{"a"}, []*types.Type{tNum}}, always, func(v map[string]*val.Val) refResult { return rs(refNumString(rNum(v, "a"))) }},
	{totalProg{"string(c)", []string{"c"}, []*types.Type{tBool}}, always, func(v map[string]*val.Val) refResult { return rs(strconv.FormatBool(rBool(v, "c"))) }},
	{totalProg{"string(s)", []string{"s"}, []*types.Type{tStr}}, always, func(v map[string]*val.Val) refResult { return rs(rStr(v, "s")) }},
	{totalProg{"xs[i]", []string{"xs", "i"}, []*types.Type{tLN, tNum}}, func(v map[string]*val.Val) bool {
		i := rNum(v, "i")
		ti := math.Trunc(i)
		return sv.And(i == i, ti >= 0, ti < float64(len(rList(v, "xs"))))
	}, func(v map[string]*val.Val) refResult { return rn(rList(v, "xs")[sv.ConcreteInt(int(math.Trunc(rNum(v, "i"))), 0, 4)]) }},
	// numbers as map keys: the same number (IEEE ==, so 0 and -0) selects the
	// same entry and is rendered like the number itself; keys are identical
	// or clearly apart (the tolerance window is C18's subject)
	{totalProg{"isset([a: 1], b)", ab, nn}, keysApart, func(v map[string]*val.Val) refResult { return rb(rNum(v, "a") == rNum(v, "b")) }},
	{totalProg{"get([a: 1], b, 2)", ab, nn}, keysApart, func(v map[string]*val.Val) refResult { return rn(sv.IteF(rNum(v, "a") == rNum(v, "b"), 1, 2)) }},
	{totalProg{"len([a: 1, b: 2])", ab, nn}, keysApart, func(v map[string]*val.Val) refResult { return rn(sv.IteF(rNum(v, "a") == rNum(v, "b"), 1, 2)) }},
	{totalProg{"string([a: 1])", []string{"a"}, []*types.Type{tNum}}, func(v map[string]*val.Val) bool { return rNum(v, "a") == rNum(v, "a") },
		func(v map[string]*val.Val) refResult { return rs("[" + refNumString(rNum(v, "a")) + ": 1]") }},
	{totalProg{"[a: 1] == [b: 1]", ab, nn}, keysApart, func(v map[string]*val.Val) refResult { return rb(rNum(v, "a") == rNum(v, "b")) }},
	// the tolerance applies element by element inside composite values
	numBin("[a] == [b]", func(a, b float64) refResult { return rb(refEQ(a, b)) }),
	// (!= on composite values is the negation of ==; for NaN elements that differs from the scalar !=, which no statement settles)
	numBin("[a] != [b]", func(a, b float64) refResult { return rb(!refEQ(a, b)) }),
	numBin("[\"k\": a] == [\"k\": b]", func(a, b float64) refResult { return rb(refEQ(a, b)) }),
	numBin("[[a], [a]] == [[b], [b]]", func(a, b float64) refResult { return rb(refEQ(a, b)) }),
	numBin("[{v: a}] != [{v: b}]", func(a, b float64) refResult { return rb(!refEQ(a, b)) }),
	{totalProg{"p.a", []string{"p"}, []*types.Type{TObjAB}}, always, func(v map[string]*val.Val) refResult {
		x, _ := v["p"].Obj().Get("a")
		return rn(x.Num().V)
	}},
}

// H04_ops: each built-in returns the documented value on every back end.
func H04_ops() {
	e := Eng()
	p := refProgs[sv.Choice("prog", len(refProgs))]
	expr, _, cls := FrontOnce(e, p.src, progEnv(p.totalProg), p.names)
	sv.Assert("accepted", cls == "ok")
	vals := progVals(p.totalProg)
	sv.Assume(p.pre(vals))
	want := p.ref(vals)
	res, c := runAll(e, expr, vals, p.names)
	for b := 0; b < NBackends; b++ {
		sv.Assert("yields-value:"+BackendNames[b], c[b] == "ok")
		if c[b] != "ok" {
			continue
		}
		r := res[b]
		switch want.kind {
		case "num":
			sv.Assert("documented-number:"+BackendNames[b], r != nil && r.Type != nil && r.Type.Kind == types.KNum && sv.Same(r.Num().V, want.n))
		case "bool":
			sv.Assert("documented-bool:"+BackendNames[b], r != nil && r.Type != nil && r.Type.Kind == types.KBool && r.Bool().V == want.b)
		case "str":
			sv.Assert("documented-string:"+BackendNames[b], r != nil && r.Type != nil && r.Type.Kind == types.KStr && sv.StrEq(r.Str().V, want.s))
		}
	}
	sv.Reach("compared")
}

// H04_sets: union / intersect / diff are the order-preserving de-duplicating
// set operations of the documentation. Every element of the two operand
// lists is one of three distinct numbers, chosen by a selector, so every
// pattern of repetition and relative order up to the size bound is covered.
// (Which numbers count as the same element is C18's subject and is decided
// there for symbolic numbers; with symbolic elements here each path cost
// seconds of solver time for nothing new, so the elements are concrete.)
//
//	union(xs, ys)     = the distinct elements of xs ++ ys, first occurrences, in that order
//	intersect(xs, ys) = the distinct elements of xs that occur in ys, in the order of xs
//	diff(xs, ys)      = the distinct elements of xs that do not occur in ys, in the order of xs
func H04_sets() {
	e := Eng()
	fn := []string{"union", "intersect", "diff"}[sv.Choice("fn", 3)]
	src := fn + "(xs, ys)"
	tys := map[string]*types.Type{"xs": types.List(types.Num), "ys": types.List(types.Num)}
	names := []string{"xs", "ys"}
	expr, _, cls := FrontOnce(e, src, tys, names)
	sv.Assert("accepted", cls == "ok")
	base := [3]float64{1, 2.5, -3e20}
	nx, ny := sv.Choice("xs.len", 4), sv.Choice("ys.len", 3+thoroughExtra())
	pick := func(name string, n int) (*val.Val, []int) {
		l := val.List(types.List(types.Num).List(), n).List()
		idx := make([]int, n)
		for k := 0; k < n; k++ {
			idx[k] = sv.Choice(name+"["+itoa(k)+"]", 3)
			l.V[k] = val.Num(base[idx[k]])
		}
		return l.Vl(), idx
	}
	xs, xi := pick("xs", nx)
	ys, yi := pick("ys", ny)
	has := func(l []int, v int) bool {
		for _, x := range l {
			if x == v {
				return true
			}
		}
		return false
	}
	var want []int
	add := func(v int) {
		if !has(want, v) {
			want = append(want, v)
		}
	}
	switch fn {
	case "union":
		for _, v := range xi {
			add(v)
		}
		for _, v := range yi {
			add(v)
		}
	case "intersect":
		for _, v := range xi {
			if has(yi, v) {
				add(v)
			}
		}
	default:
		for _, v := range xi {
			if !has(yi, v) {
				add(v)
			}
		}
	}
	res, c := runAll(e, expr, map[string]*val.Val{"xs": xs, "ys": ys}, names)
	for b := 0; b < NBackends; b++ {
		sv.Assert("yields-value:"+BackendNames[b], c[b] == "ok")
		if c[b] != "ok" {
			continue
		}
		r := res[b]
		ok := r != nil && r.Type != nil && r.Type.Kind == types.KList && len(r.List().V) == len(want)
		if ok {
			for k, v := range want {
				el := r.List().V[k]
				ok = sv.And(ok, el != nil && el.Type != nil && el.Type.Kind == types.KNum && sv.Same(el.Num().V, base[v]))
			}
		}
		sv.Assert("documented-set-operation:"+BackendNames[b], ok)
	}
	sv.Reach("compared")
}
