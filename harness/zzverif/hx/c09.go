//go:build verif

package hx

import (
	"unicode"

	"github.com/goghcrow/yae/parser/lexer"
	"github.com/goghcrow/yae/parser/oper"
	"github.com/goghcrow/yae/parser/token"
	"github.com/goghcrow/yae/zzverif/sv"
)

const operatorChars = ":!#$%^&*+./<=>?@\\ˆ|~-"

func userOp(k string) oper.Operator { return oper.Operator{Kind: token.Kind(k), BP: 5, Fixity: oper.INFIX_L} }

// operator tables chosen to collide with each other and with the built-in
// punctuation
func lexOps(k int) []oper.Operator {
	ops := append([]oper.Operator{}, oper.BuiltIn()...)
	switch k {
	case 1:
		ops = append(ops, userOp(".^."), userOp("=>"), userOp("="), userOp("==>"))
	case 2:
		ops = append(ops, userOp("as"), userOp("assert_"))
	case 3:
		ops = append(ops, userOp("::"), userOp(":="))
	case 4:
		ops = append(ops, userOp("?."), userOp("??"), userOp("..."))
	case 5:
		// the one operator character outside ASCII (U+02C6, two bytes)
		ops = append(ops, userOp(".ˆ"), userOp("?ˆ"), userOp("ˆ"), userOp("ˆˆ."))
	case 6:
		// user operators in front of the built-ins (the order the facade uses):
		// a short operator, a word operator, then the built-in extensions of the short one
		ops = append([]oper.Operator{userOp("|"), userOp("xor"), userOp("<"), userOp("in"), userOp("<=>")}, ops...)
	case 7:
		// a table of its own, registered in an order that interleaves short
		// operators, word operators and longer operators with the same prefix
		ops = []oper.Operator{userOp("="), userOp("<"), userOp(">"), userOp("and"), userOp("or"), userOp("not"), userOp("<="), userOp(">="), userOp("<>"), userOp("<=>"), userOp("+"), userOp("*")}
	}
	return ops
}

const nLexOps = 8

func isSymbolicOp(k string) bool { return !oper.IsIdentOp(k) }

var specialRunes = []string{"é", "晓", "\u00a0", "\u2028", "\ufffd", "ˆ"}

// anyInput: n positions, each a symbolic ASCII byte or one of six concrete
// non-ASCII runes (a letter, a CJK letter, two Unicode spaces, U+FFFD and the
// non-ASCII operator character ˆ).
func anyInput(n int) string {
	s := ""
	for p := 0; p < n; p++ {
		k := sv.Choice("pos"+itoa(p), 1+len(specialRunes))
		if k == 0 {
			b := sv.Byte("in" + itoa(p))
			sv.Assume(b < 0x80)
			s += string([]byte{b})
		} else {
			s += specialRunes[k-1]
		}
	}
	return s
}

func isIdentRune(r rune) bool {
	return r == '_' || r >= '0' && r <= '9' || r >= 'a' && r <= 'z' || r >= 'A' && r <= 'Z' || unicode.IsLetter(r)
}

func isOperatorRune(r rune) bool {
	for _, o := range operatorChars {
		if r == o {
			return true
		}
	}
	return false
}

func runesHavePrefix(rs []rune, at int, p string) bool {
	pr := []rune(p)
	if at+len(pr) > len(rs) {
		return false
	}
	for i, r := range pr {
		if rs[at+i] != r {
			return false
		}
	}
	return true
}

func checkTokens(ops []oper.Operator, src string, toks []*token.Token) {
	rs := []rune(src)
	prevEnd := 0
	line, col, at := 0, 0, 0
	advance := func(to int) {
		for ; at < to; at++ {
			if rs[at] == '\n' {
				line++
				col = 0
			} else {
				col++
			}
		}
	}
	for _, t := range toks {
		inBounds := t.Idx >= prevEnd && t.Idx < t.IdxEnd && t.IdxEnd <= len(rs)
		sv.Assert("tokens-in-source-order-without-overlap", inBounds)
		if !inBounds {
			return
		}
		for g := prevEnd; g < t.Idx; g++ {
			sv.Assert("only-white-space-between-tokens", unicode.IsSpace(rs[g]))
		}
		sv.Assert("lexeme-is-the-text-of-its-index-range", sv.StrEq(t.Lexeme, string(rs[t.Idx:t.IdxEnd])))
		advance(t.Idx)
		sv.Assert("line-and-column-of-the-token-start", t.Line == line && t.Col == col)
		// longest registered symbolic operator
		width := t.IdxEnd - t.Idx
		for _, o := range ops {
			k := string(o.Kind)
			if isSymbolicOp(k) && len([]rune(k)) > width {
				sv.Assert("no-longer-registered-operator-matches-here", !runesHavePrefix(rs, t.Idx, k))
			}
		}
		// whole words
		wholeWord := t.Kind == token.TRUE || t.Kind == token.FALSE
		for _, o := range ops {
			if t.Kind == o.Kind && oper.IsIdentOp(string(o.Kind)) {
				wholeWord = true
			}
		}
		if wholeWord && t.IdxEnd < len(rs) {
			sv.Assert("keyword-like-token-is-a-whole-word", !isIdentRune(rs[t.IdxEnd]))
		}
		if (t.Kind == token.DOT || t.Kind == token.QUESTION) && t.IdxEnd < len(rs) {
			sv.Assert("built-in-dot-and-question-not-split-out-of-a-longer-operator", !isOperatorRune(rs[t.IdxEnd]))
		}
		prevEnd = t.IdxEnd
	}
	for g := prevEnd; g < len(rs); g++ {
		sv.Assert("only-white-space-after-the-last-token", unicode.IsSpace(rs[g]))
	}
}

// input lengths: 1..2 in the quick tier, 1..3 in the thorough tier
func lexLen() int {
	if sv.Thorough() {
		return 3
	}
	return 2
}

// H09_lex: any input either fails with a syntax error or yields tokens that
// partition it with exact positions, longest-match operators and whole-word
// keywords - for every operator table of the catalogue.
func H09_lex() {
	ops := lexOps(sv.Choice("ops", nLexOps))
	n := 1 + sv.Choice("len", lexLen())
	src := anyInput(n)
	var toks []*token.Token
	cls := sv.Outcome(func() { toks = lexer.NewLexer(ops).Lex(src) })
	if cls != "ok" {
		sv.Reach("rejected")
		sv.Assert("rejection-is-a-syntax-error", hasPrefix(cls, "assert:syntax error"))
		return
	}
	sv.Reach("lexed")
	checkTokens(ops, src, toks)
}

type litCase struct {
	src  string
	kind token.Kind
}

var litCases = []litCase{
	{"0", token.NUM}, {"12", token.NUM}, {"1.5", token.NUM}, {"1e5", token.NUM}, {"1.5e-3", token.NUM}, {"1E+9", token.NUM},
	{"0x1F", token.NUM}, {"0xabc", token.NUM}, {"0b101", token.NUM}, {"0o17", token.NUM}, {"0x0", token.NUM}, {"10.25", token.NUM},
	{`"a\"b"`, token.STR}, {`""`, token.STR}, {`"é晓\né"`, token.STR}, {"`raw \"x\" \\`", token.STR},
	{"'2020-01-01 10:00:00'", token.TIME}, {"''", token.TIME},
	{"`a\nb`", token.STR}, {"\"a\nb\"", token.STR}, {"'x\ny'", token.TIME}, {"`\n\n`", token.STR},
	{"true1", token.SYM}, {"false_", token.SYM}, {"and2", token.SYM}, {"not9", token.SYM}, {"or_", token.SYM}, {"true晓", token.SYM},
	{"true", token.TRUE}, {"false", token.FALSE}, {"名前_1", token.SYM}, {"_a", token.SYM}, {"truex", token.SYM}, {"falsey", token.SYM}, {"nothing", token.SYM},
}

// H09_literals: each documented literal form, alone and between other
// tokens, is read as a single token of its kind.
func H09_literals() {
	c := litCases[sv.Choice("case", len(litCases))]
	ops := lexOps(sv.Choice("ops", nLexOps))
	ctx := sv.Choice("context", 3)
	src := c.src
	idx := 0
	switch ctx {
	case 1:
		src = "a + " + c.src + " * b"
		idx = 2
	case 2:
		src = "[" + c.src + "," + c.src + "]"
		idx = 1
	}
	var toks []*token.Token
	cls := sv.Outcome(func() { toks = lexer.NewLexer(ops).Lex(src) })
	sv.Assert("lexes", cls == "ok")
	if cls != "ok" {
		return
	}
	want := []int{1, 5, 5}[ctx]
	if len(toks) != want || toks[idx].Lexeme != c.src {
		sv.Logf("%q lexed into %d tokens", src, len(toks))
	}
	sv.Assert("one-token-per-literal", len(toks) == want && toks[idx].Lexeme == c.src && toks[idx].Kind == c.kind)
	checkTokens(ops, src, toks)
}

// H09_suffix: a keyword-like word, literal opener or operator followed by one
// or two arbitrary positions still satisfies every token invariant (whole
// words, longest match, positions after embedded newlines).
func H09_suffix() {
	heads := []string{"true", "false", "and", "not", "or", "as", "1", "1.", "0x", "\"a", "`a", "'a", "a", ".", "?", "=", "=="}
	ops := lexOps(sv.Choice("ops", nLexOps))
	head := heads[sv.Choice("head", len(heads))]
	src := head + anyInput(1+sv.Choice("len", 2))
	if sv.Choice("trailer", 2) == 1 {
		src += " z"
	}
	var toks []*token.Token
	cls := sv.Outcome(func() { toks = lexer.NewLexer(ops).Lex(src) })
	if cls != "ok" {
		sv.Reach("rejected")
		sv.Assert("rejection-is-a-syntax-error", hasPrefix(cls, "assert:syntax error"))
		return
	}
	sv.Reach("lexed")
	checkTokens(ops, src, toks)
}

// AnyInput: n positions, each a symbolic ASCII byte or one of the concrete
// non-ASCII runes (exported for the totality harnesses of the root package).
func AnyInput(n int) string { return anyInput(n) }

// H09_two: two lexers built one after the other in one process, for operator
// tables chosen so that their operator texts collide when run together
// ('<|' '|>' against '<' '|' '>'; '=>' '>' against '=' '>>'): what the second
// lexer returns is what its own table dictates, whatever was built before it.
func H09_two() {
	tables := [][]string{{"<|", "|>"}, {"<", "|", ">"}, {"<", "||", ">"}, {"=>", ">"}, {"=", ">>"}, {"-|", "|>"}, {"-", "||", ">"}}
	mk := func(k int) []oper.Operator {
		var ops []oper.Operator
		for _, s := range tables[k] {
			ops = append(ops, userOp(s))
		}
		return ops
	}
	first, second := sv.Choice("first", len(tables)), sv.Choice("second", len(tables))
	inputs := []string{"a <| b", "a |> b", "a < | > b", "a || b", "<|>", "a => b", "a >> b", "a -| b", "=>>", "|>|"}
	src := inputs[sv.Choice("input", len(inputs))]
	_ = sv.Outcome(func() { lexer.NewLexer(mk(first)).Lex(src) })
	ops := mk(second)
	var toks []*token.Token
	cls := sv.Outcome(func() { toks = lexer.NewLexer(ops).Lex(src) })
	// the reference: a lexer of the same table built in a state no other table has touched
	var fresh []*token.Token
	fcls := sv.Outcome(func() { fresh = lexer.NewLexer(append([]oper.Operator{}, mk(second)...)).Lex(src) })
	_ = fresh
	if cls != "ok" {
		sv.Reach("rejected")
		sv.Assert("rejection-is-a-syntax-error", hasPrefix(cls, "assert:syntax error"))
		return
	}
	sv.Reach("lexed")
	sv.Assert("same-acceptance-as-fresh", fcls == "ok")
	checkTokens(ops, src, toks)
	for _, t := range toks {
		known := t.Kind == token.SYM || t.Kind == token.NUM
		for _, o := range ops {
			if t.Kind == o.Kind {
				known = true
			}
		}
		sv.Assert("every-operator-token-belongs-to-this-lexer's-table", known)
	}
}

func repeatStr(s string, n int) string {
	out := ""
	for i := 0; i < n; i++ {
		out += s
	}
	return out
}

// H09_long: a literal or identifier is one token whatever its length: forms
// of 257, 300 and 1000 characters (beyond any look-ahead window a lexer might
// keep), alone and between other tokens, under the built-in table.
func H09_long() {
	n := []int{257, 300, 1000}[sv.Choice("length", 3)]
	var c litCase
	switch sv.Choice("form", 7) {
	case 0:
		c = litCase{repeatStr("x", n), token.SYM}
	case 1:
		c = litCase{"晓" + repeatStr("y9", n/2), token.SYM}
	case 2:
		c = litCase{repeatStr("7", n), token.NUM}
	case 3:
		c = litCase{"1." + repeatStr("3", n) + "e5", token.NUM}
	case 4:
		c = litCase{"0x" + repeatStr("ab", n/2), token.NUM}
	case 5:
		c = litCase{"\"" + repeatStr("s ", n/2) + "\"", token.STR}
	default:
		c = litCase{"`" + repeatStr("r\"", n/2) + "`", token.STR}
	}
	ops := oper.BuiltIn()
	ctx := sv.Choice("context", 2)
	src, idx, want := c.src, 0, 1
	if ctx == 1 {
		src, idx, want = "a + "+c.src+" * "+c.src, 2, 5
	}
	var toks []*token.Token
	cls := sv.Outcome(func() { toks = lexer.NewLexer(ops).Lex(src) })
	sv.Assert("lexes", cls == "ok")
	if cls != "ok" {
		return
	}
	if len(toks) != want {
		sv.Logf("a %d-character literal lexed into %d tokens", n, len(toks))
	}
	sv.Assert("one-token-per-literal", len(toks) == want && toks[idx].Lexeme == c.src && toks[idx].Kind == c.kind)
	checkTokens(ops, src, toks)
}
