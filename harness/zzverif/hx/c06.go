//go:build verif

package hx

import (
	"github.com/goghcrow/yae/types"
	"github.com/goghcrow/yae/val"
	"github.com/goghcrow/yae/zzverif/sv"
)

// tracing host functions: t(i, v) records i and returns v; boom*() fail;
// lz(c, a, b) is a user-registered lazy conditional; f3 is strict.
type tracer struct {
	log  []int
	args []*val.Val // the value each recorded call received
}

func (tr *tracer) register(e *Engine) {
	mk := func(t *types.Type) *val.Val {
		return val.Fun(types.Fun("t", []*types.Type{types.Num, t}, t), func(args ...*val.Val) *val.Val {
			tr.log = append(tr.log, int(args[0].Num().V))
			tr.args = append(tr.args, args[1])
			return args[1]
		})
	}
	e.Register(mk(types.Num), mk(types.Bool), mk(types.Str))
	e.Register(val.Fun(types.Fun("boomn", []*types.Type{}, types.Num), func(args ...*val.Val) *val.Val { panic("boom") }))
	e.Register(val.Fun(types.Fun("boomb", []*types.Type{}, types.Bool), func(args ...*val.Val) *val.Val { panic("boom") }))
	a := types.TyVar("a")
	e.Register(val.LazyFun(types.Fun("lz", []*types.Type{types.Bool, a, a}, a), func(args ...*val.Val) *val.Val {
		if args[0].Fun().Call().Bool().V {
			return args[1].Fun().Call()
		}
		return args[2].Fun().Call()
	}))
	// forces its argument twice: a thunk is re-evaluated on every force
	e.Register(val.LazyFun(types.Fun("twice", []*types.Type{types.Num}, types.Num), func(args ...*val.Val) *val.Val {
		return val.Num(args[0].Fun().Call().Num().V + args[0].Fun().Call().Num().V)
	}))
	e.Register(val.Fun(types.Fun("f3", []*types.Type{types.Num, types.Num, types.Num}, types.Num), func(args ...*val.Val) *val.Val {
		return val.Num(args[0].Num().V + args[1].Num().V + args[2].Num().V)
	}))
}

type lazyProg struct {
	src  string
	want func(c, d bool) []int // recorded calls, in order
	ok   func(c, d bool) bool  // whether evaluation succeeds
}

func yes(bool, bool) bool { return true }

func cat(xs ...[]int) []int {
	var out []int
	for _, x := range xs {
		out = append(out, x...)
	}
	return out
}
func when(b bool, xs ...int) []int {
	if b {
		return xs
	}
	return nil
}

var lazyProgs = []lazyProg{
	{"if(t(1, c), t(2, a), t(3, b))", func(c, d bool) []int { return cat([]int{1}, when(c, 2), when(!c, 3)) }, yes},
	{"t(1, c) ? t(2, a) : t(3, b)", func(c, d bool) []int { return cat([]int{1}, when(c, 2), when(!c, 3)) }, yes},
	{"t(1, c) && t(2, d)", func(c, d bool) []int { return cat([]int{1}, when(c, 2)) }, yes},
	{"t(1, c) || t(2, d)", func(c, d bool) []int { return cat([]int{1}, when(!c, 2)) }, yes},
	{"t(1, c) && t(2, d) || t(3, c)", func(c, d bool) []int { return cat([]int{1}, when(c, 2), when(!(c && d), 3)) }, yes},
	{"lz(t(1, c), t(2, a), t(3, b))", func(c, d bool) []int { return cat([]int{1}, when(c, 2), when(!c, 3)) }, yes},
	{"if(t(1, c) && t(2, d), t(3, a), t(4, b))", func(c, d bool) []int {
		return cat([]int{1}, when(c, 2), when(c && d, 3), when(!(c && d), 4))
	}, yes},
	{"lz(t(1, c), if(t(2, d), t(3, a), t(4, b)), lz(t(5, d), t(6, a), t(7, b)))", func(c, d bool) []int {
		return cat([]int{1}, when(c, 2), when(c && d, 3), when(c && !d, 4), when(!c, 5), when(!c && d, 6), when(!c && !d, 7))
	}, yes},
	{"if(c, if(d, t(1, a), t(2, b)), t(3, a)) + if(d, t(4, a), t(5, b))", func(c, d bool) []int {
		return cat(when(c && d, 1), when(c && !d, 2), when(!c, 3), when(d, 4), when(!d, 5))
	}, yes},
	{"if(c, t(1, a), boomn())", func(c, d bool) []int { return when(c, 1) }, func(c, d bool) bool { return c }},
	{"if(c, boomn(), t(1, a))", func(c, d bool) []int { return when(!c, 1) }, func(c, d bool) bool { return !c }},
	{"c && boomb()", func(c, d bool) []int { return nil }, func(c, d bool) bool { return !c }},
	{"c || boomb()", func(c, d bool) []int { return nil }, func(c, d bool) bool { return c }},
	{"c ? a : boomn()", func(c, d bool) []int { return nil }, func(c, d bool) bool { return c }},
	{"lz(c, boomn(), a)", func(c, d bool) []int { return nil }, func(c, d bool) bool { return !c }},
	{"t(1, a) + t(2, b) * t(3, a)", func(c, d bool) []int { return []int{1, 2, 3} }, yes},
	{"t(1, a) - t(2, b) - t(3, a)", func(c, d bool) []int { return []int{1, 2, 3} }, yes},
	{"[t(1, a), t(2, b), t(3, a)]", func(c, d bool) []int { return []int{1, 2, 3} }, yes},
	{"[t(1, \"k\"): t(2, a), t(3, \"j\"): t(4, b)]", func(c, d bool) []int { return []int{1, 2, 3, 4} }, yes},
	{"{x: t(1, a), y: t(2, b), z: t(3, c)}", func(c, d bool) []int { return []int{1, 2, 3} }, yes},
	{"f3(t(1, a), t(2, b), t(3, a))", func(c, d bool) []int { return []int{1, 2, 3} }, yes},
	{"t(1, a).f3(t(2, b), t(3, a))", func(c, d bool) []int { return []int{1, 2, 3} }, yes},
	{"[t(1, a), t(2, b)][t(3, 0)]", func(c, d bool) []int { return []int{1, 2, 3} }, yes},
	{"fs[t(1, 0)](t(2, a), t(3, b), t(4, a))", func(c, d bool) []int { return []int{1, 2, 3, 4} }, yes},
	{"t(1, t(2, a) + t(3, b))", func(c, d bool) []int { return []int{2, 3, 1} }, yes},
	{"twice(t(1, a))", func(c, d bool) []int { return []int{1, 1} }, yes},
	{"twice(if(t(1, c), t(2, a), t(3, b)))", func(c, d bool) []int { return cat([]int{1}, when(c, 2), when(!c, 3), []int{1}, when(c, 2), when(!c, 3)) }, yes},
	{"lz(c, twice(t(1, a)), t(2, b))", func(c, d bool) []int { return cat(when(c, 1, 1), when(!c, 2)) }, yes},
	// literal conditions and literal arms (what a constant-folding compiler looks at)
	{"t(1, c) && false", func(c, d bool) []int { return []int{1} }, yes},
	{"t(1, c) || true", func(c, d bool) []int { return []int{1} }, yes},
	{"if(t(1, c), 7, 7)", func(c, d bool) []int { return []int{1} }, yes},
	{"t(1, c) ? \"s\" : \"s\"", func(c, d bool) []int { return []int{1} }, yes},
	{"if(true, t(1, a), t(2, b)) + if(false, t(3, a), t(4, b))", func(c, d bool) []int { return []int{1, 4} }, yes},
	{"true && t(1, c) || false && t(2, d)", func(c, d bool) []int { return []int{1} }, func(c, d bool) bool { return true }},
	{"boomb() && false", func(c, d bool) []int { return nil }, func(c, d bool) bool { return false }},
	{"boomb() || true", func(c, d bool) []int { return nil }, func(c, d bool) bool { return false }},
	{"if(boomb(), 1, 1)", func(c, d bool) []int { return nil }, func(c, d bool) bool { return false }},
	// repeated literal keys: every entry is evaluated, in source order
	{"[\"k\": t(1, a), \"k\": t(2, b)]", func(c, d bool) []int { return []int{1, 2} }, yes},
	{"[1: t(1, a), 1.0: t(2, b), 0x1: t(3, a)]", func(c, d bool) []int { return []int{1, 2, 3} }, yes},
	{"[true: t(1, a), (true): t(2, b)][true] + t(3, a)", func(c, d bool) []int { return []int{1, 2, 3} }, yes},
	// a failing call on literals only, in a branch that may not be taken (a compiler that folds constants must not fail for it)
	{"if(c, t(1, a), 7 % 0)", func(c, d bool) []int { return when(c, 1) }, func(c, d bool) bool { return c }},
	{"c || 1 % 0 == 0", func(c, d bool) []int { return nil }, func(c, d bool) bool { return c }},
	{"if(c, t(1, a), 7 % 0.5)", func(c, d bool) []int { return when(c, 1) }, func(c, d bool) bool { return c }},
	{"c || 7 % -0.25 == 0", func(c, d bool) []int { return nil }, func(c, d bool) bool { return c }},
	{"lz(c, t(1, a), 5 % (2 - 2))", func(c, d bool) []int { return when(c, 1) }, func(c, d bool) bool { return c }},
	// a lazy call to the right of an operand that is already evaluated, inside a lazy argument
	{"lz(c, t(1, a) + lz(d, t(2, a), t(3, b)), t(4, b))", func(c, d bool) []int { return cat(when(c, 1), when(c && d, 2), when(c && !d, 3), when(!c, 4)) }, yes},
	{"twice(t(1, a) + twice(t(2, b)))", func(c, d bool) []int { return []int{1, 2, 2, 1, 2, 2} }, yes},
	{"lz(c, f3(t(1, a), lz(d, t(2, a), t(3, b)), t(4, a)), t(5, b))", func(c, d bool) []int {
		return cat(when(c, 1), when(c && d, 2), when(c && !d, 3), when(c, 4), when(!c, 5))
	}, yes},
	{"[t(1, a), t(2, b)][t(3, 1)] + [t(4, \"k\"): t(5, a)][t(6, \"k\")]", func(c, d bool) []int { return []int{1, 2, 3, 4, 5, 6} }, yes},
}

// H06_order: the sequence of host-function invocations is the one the program
// dictates - condition once, then only the selected operand; strict operands
// exactly once, left to right - on every back end.
func H06_order() {
	e := NewEngine()
	tr := &tracer{}
	tr.register(e)
	p := lazyProgs[sv.Choice("prog", len(lazyProgs))]
	c, d := sv.Bool("c"), sv.Bool("d")
	a, b := sv.Float64("a"), sv.Float64("b")
	f3t := types.Fun("f3", []*types.Type{types.Num, types.Num, types.Num}, types.Num)
	fs := val.List(types.List(f3t).List(), 1).List()
	fs.V[0] = val.Fun(f3t, func(args ...*val.Val) *val.Val { return args[2] })
	tys := map[string]*types.Type{"a": types.Num, "b": types.Num, "c": types.Bool, "d": types.Bool, "fs": types.List(f3t)}
	names := []string{"a", "b", "c", "d", "fs"}
	expr, _, cls := e.Front(p.src, tys, names)
	sv.Assert("accepted", cls == "ok")
	bv := func(x bool) *val.Val {
		if x {
			return val.True
		}
		return val.False
	}
	vals := map[string]*val.Val{"a": val.Num(a), "b": val.Num(b), "c": bv(c), "d": bv(d), "fs": fs.Vl()}
	want := p.want(c, d)
	shouldSucceed := p.ok(c, d)
	for bk := 0; bk < NBackends; bk++ {
		tr.log = nil
		bb := bk
		class := sv.Outcome(func() {
			cl := Backend(bb)(expr, e.Rt)
			ve := val.NewEnv()
			for _, n := range names {
				ve.Put(n, vals[n])
			}
			cl(ve.Inherit(e.Rt))
		})
		if shouldSucceed {
			sv.Assert("unselected-failing-operand-never-runs:"+BackendNames[bk], class == "ok")
		} else {
			sv.Assert("selected-failing-operand-fails:"+BackendNames[bk], class == "panic:boom" || IsDivide(class))
		}
		same := len(tr.log) == len(want)
		if same {
			for i := range want {
				same = same && tr.log[i] == want[i]
			}
		}
		if !same {
			sv.Logf("%s %s: recorded %v, expected %v", BackendNames[bk], p.src, tr.log, want)
		}
		sv.Assert("invocation-sequence-is-the-dictated-one:"+BackendNames[bk], same)
	}
	sv.Reach("traced")
}

// package-level (created by the initialiser): what FrontOnce caches refers to
// them, so they must outlive the path
var (
	tMSB = types.Map(tStr, tBool)
	tLB  = types.List(tBool)
	tOB  = ObjT([]string{"flags"}, []*types.Type{tMSB})
)

// H06_guard: a guarded partial operation never fails.
func H06_guard() {
	e := Eng()
	srcs := []string{"if(isset(m, k), m[k], d)", "isset(m, k) ? m[k] : d", "if(i >= 0 && i < len(xs), xs[i], d)", "if(b != 0, a % b, d)", "!isset(m, k) || m[k] == m[k]",
		// the guarded operand is a bare element access (no call, no operator)
		"isset(mb, k) && mb[k]", "!isset(mb, k) || mb[k]", "i >= 0 && i < len(bs) && bs[i]", "!(i >= 0 && i < len(bs)) || bs[i]", "isset(mb, k) && ob.flags[k]"}
	src := srcs[sv.Choice("prog", len(srcs))]
	tys := map[string]*types.Type{"m": tMSN, "k": tStr, "d": tNum, "xs": tLN, "i": tNum, "a": tNum, "b": tNum, "mb": tMSB, "bs": tLB, "ob": tOB}
	names := []string{"m", "k", "d", "xs", "i", "a", "b", "mb", "bs", "ob"}
	expr, _, cls := FrontOnce(e, src, tys, names)
	sv.Assert("accepted", cls == "ok")
	NumPool = []float64{1, 2.5}
	MaxLenQuick = 2
	// arbitrary values for the names the program uses, fixed ones for the rest
	pick := func(name string, t *types.Type, dflt *val.Val) *val.Val {
		if uses(src, name) {
			return AnyVal(t, name)
		}
		return dflt
	}
	vals := map[string]*val.Val{
		"m": pick("m", tMSN, val.Map(tMSN.Map())), "k": pick("k", tStr, val.Str("k")), "xs": pick("xs", tLN, val.List(tLN.List(), 0)),
		"bs": pick("bs", tLB, val.List(tLB.List(), 0)),
	}
	if uses(src, "mb") || uses(src, "ob") {
		vals["mb"] = AnyVal(tMSB, "mb")
	} else {
		vals["mb"] = val.Map(tMSB.Map())
	}
	ob := val.Obj(tOB.Obj()).Obj()
	ob.V[0] = vals["mb"]
	vals["ob"] = ob.Vl()
	NumPool = nil
	MaxLenQuick = 3
	vals["d"] = val.Num(sv.Float64("d"))
	vals["i"] = val.Num(sv.Float64("i"))
	vals["a"] = val.Num(sv.Float64("a"))
	bb := sv.Float64("b")
	// the guard b != 0 is the tolerance comparison; a divisor that passes it
	// but truncates to 0 (e.g. 0.5) is outside this template
	sv.Assume(sv.Or(bb == 0, bb >= 1, bb <= -1))
	vals["b"] = val.Num(bb)
	_, c := runAll(e, expr, vals, names)
	for b := 0; b < NBackends; b++ {
		sv.Assert("guarded-partial-operation-never-fails:"+BackendNames[b], c[b] == "ok")
	}
	sv.Reach("ran")
}

// H06_rerun: one compiled expression evaluated twice with different data
// gives, each time, the sequence and value its own data dictates (nothing is
// remembered from the first evaluation).
func H06_rerun() {
	e := NewEngine()
	tr := &tracer{}
	tr.register(e)
	srcs := []string{"lz(t(1, c), t(2, a), t(3, b))", "if(t(1, c), twice(t(2, a)), t(3, b))", "lz(c, a, b) + twice(a)", "t(1, c) && t(2, d)"}
	k := sv.Choice("prog", len(srcs))
	tys := map[string]*types.Type{"a": types.Num, "b": types.Num, "c": types.Bool, "d": types.Bool}
	names := []string{"a", "b", "c", "d"}
	expr, _, cls := e.Front(srcs[k], tys, names)
	sv.Assert("accepted", cls == "ok")
	bv := func(x bool) *val.Val {
		if x {
			return val.True
		}
		return val.False
	}
	{
		bk := sv.Choice("backend", NBackends)
		cl := Backend(bk)(expr, e.Rt)
		for run := 0; run < 2; run++ {
			c, d := sv.Bool("c"+itoa(run)), sv.Bool("d"+itoa(run))
			// distinct data per run; the first run's operand symbolic
			a, b := float64(10*run+1), float64(10*run+2)
			if run == 0 {
				a = sv.Float64("a0")
			}
			tr.log = nil
			var res *val.Val
			class := sv.Outcome(func() {
				ve := val.NewEnv()
				ve.Put("a", val.Num(a))
				ve.Put("b", val.Num(b))
				ve.Put("c", bv(c))
				ve.Put("d", bv(d))
				res = cl(ve.Inherit(e.Rt))
			})
			sv.Assert("evaluates:"+BackendNames[bk], class == "ok" && res != nil)
			if class != "ok" || res == nil {
				continue
			}
			var want []int
			switch k {
			case 0:
				want = cat([]int{1}, when(c, 2), when(!c, 3))
				sv.Assert("value-of-this-run:"+BackendNames[bk], sv.Same(res.Num().V, sv.IteF(c, a, b)))
			case 1:
				want = cat([]int{1}, when(c, 2, 2), when(!c, 3))
				sv.Assert("value-of-this-run:"+BackendNames[bk], sv.Same(res.Num().V, sv.IteF(c, a+a, b)))
			case 2:
				sv.Assert("value-of-this-run:"+BackendNames[bk], sv.Same(res.Num().V, sv.IteF(c, a, b)+(a+a)))
			default:
				want = cat([]int{1}, when(c, 2))
				sv.Assert("value-of-this-run:"+BackendNames[bk], res.Bool().V == sv.And(c, d))
			}
			same := len(tr.log) == len(want)
			if same {
				for i := range want {
					same = same && tr.log[i] == want[i]
				}
			}
			sv.Assert("sequence-of-this-run:"+BackendNames[bk], same)
		}
	}
	sv.Reach("re-run")
}
