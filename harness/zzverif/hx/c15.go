//go:build verif

package hx

import (
	"time"

	"github.com/goghcrow/yae/conv"
	"github.com/goghcrow/yae/types"
	"github.com/goghcrow/yae/val"
	"github.com/goghcrow/yae/zzverif/sv"
)

// ---- a catalogue of Go host types

type hLeaf struct {
	N   int     `yae:"n"`
	F   float32 `yae:"f"`
	S   string
	B   bool `yae:"b"`
	U8  uint8
	I64 int64 `yae:"i64"`
}

type hOpt struct {
	P  *float64 `yae:"p,maybe"`
	Q  *hLeaf   `yae:"q, Maybe "`
	L  []int    `yae:"l,maybe"`
	M  map[string]int `yae:",maybe"`
	At time.Time `yae:"at"`
}

type hNest struct {
	In  hLeaf            `yae:"in"`
	Ptr *hLeaf           `yae:"ptr"`
	Xs  []float64        `yae:"xs"`
	Ys  [2]int16         `yae:"ys"`
	M   map[string]hLeaf `yae:"m"`
	K   map[int]string   `yae:"k"`
	PP  **int            `yae:"pp"`
}

type hEmpty struct{}

func anyLeaf(name string) hLeaf {
	return hLeaf{N: sv.Int(name + ".N"), F: sv.Float32(name + ".F"), S: AnyStr(name + ".S"), B: sv.Bool(name + ".B"),
		U8: sv.Byte(name + ".U8"), I64: sv.Int64(name + ".I64")}
}

// someLeaf: one symbolic field, the rest concrete (for nested positions).
func someLeaf(name string) hLeaf {
	return hLeaf{N: sv.Int(name + ".N"), F: 2.5, S: "s:" + name, B: true, U8: 200, I64: -9007199254740993}
}

// the value conv should produce for a leaf
func checkLeaf(v *val.Val, l hLeaf, what string) {
	ok := v != nil && v.Type != nil && v.Type.Kind == types.KObj && len(v.Obj().V) == 6
	sv.Assert(what+":leaf-is-an-object-of-6-fields", ok)
	if !ok {
		return
	}
	get := func(n string) *val.Val { x, _ := v.Obj().Get(n); return x }
	num := func(n string, want float64) {
		x := get(n)
		sv.Assert(what+":field-"+n+"-is-the-number", x != nil && x.Type.Kind == types.KNum && sv.Same(x.Num().V, want))
	}
	num("n", float64(l.N))
	num("f", float64(l.F))
	num("U8", float64(l.U8))
	num("i64", float64(l.I64))
	s := get("S")
	sv.Assert(what+":field-S-is-the-string", s != nil && s.Type.Kind == types.KStr && s.Str().V == l.S)
	b := get("b")
	sv.Assert(what+":field-b-is-the-bool", b != nil && b.Type.Kind == types.KBool && b.Bool().V == l.B)
}

var tLeaf = ObjT([]string{"n", "f", "S", "b", "U8", "i64"}, []*types.Type{tNum, tNum, tStr, tBool, tNum, tNum})

// H15_leaf: scalars of every width convert to the number / string / bool they
// hold, under their tag names, and the type is the same for every value.
func H15_leaf() {
	l := anyLeaf("l")
	var v *val.Val
	var err error
	ptr := sv.Choice("by-pointer", 2) == 1
	cls := sv.Outcome(func() {
		if ptr {
			v, err = conv.ValOf(&l)
		} else {
			v, err = conv.ValOf(l)
		}
	})
	sv.Assert("conversion-does-not-panic", cls == "ok")
	sv.Assert("converts", err == nil)
	if cls != "ok" || err != nil {
		return
	}
	sv.Assert("well-formed", RefWellTyped(v, v.Type) == "")
	sv.Assert("type-depends-only-on-the-go-type", RefTypeEq(v.Type, tLeaf))
	ty, terr := conv.TypeOf(l)
	sv.Assert("type-of-value-equals-reported-type", terr == nil && RefTypeEq(ty, v.Type))
	checkLeaf(v, l, "top")
	sv.Reach("converted")
}

// H15_opt: optional markers, nil and non-nil pointers / slices / maps, times.
func H15_opt() {
	var o hOpt
	pv := sv.Float64("p")
	if sv.Choice("p-present", 2) == 1 {
		o.P = &pv
	}
	leaf := someLeaf("q")
	qPresent := sv.Choice("q-present", 2) == 1
	if qPresent {
		o.Q = &leaf
	}
	ln := sv.Choice("l", 3) // nil, empty, one element
	l0 := sv.Int("l0")
	switch ln {
	case 1:
		o.L = []int{}
	case 2:
		o.L = []int{l0}
	}
	if sv.Choice("m-present", 2) == 1 {
		o.M = map[string]int{"k": sv.Int("mk")}
	}
	sec := sv.Int64("sec")
	sv.Assume(sec > -60000000000 && sec < 250000000000)
	o.At = time.Unix(sec, 0)
	var v *val.Val
	var err error
	cls := sv.Outcome(func() { v, err = conv.ValOf(o) })
	sv.Assert("conversion-does-not-panic", cls == "ok")
	sv.Assert("converts", err == nil)
	if cls != "ok" || err != nil {
		return
	}
	sv.Assert("well-formed", RefWellTyped(v, v.Type) == "")
	want := ObjT([]string{"p", "q", "l", "M", "at"}, []*types.Type{types.Maybe(tNum), types.Maybe(tLeaf), types.Maybe(types.List(tNum)), types.Maybe(types.Map(tStr, tNum)), tTime})
	if RefWellTyped(v, want) != "" {
		sv.Logf("type %s, expected %s", v.Type.String(), want.String())
	}
	sv.Assert("type-is-the-same-for-every-value-of-the-go-type", RefTypeEq(v.Type, want))
	ty, terr := conv.TypeOf(o)
	sv.Assert("type-of-value-equals-reported-type", terr == nil && RefTypeEq(ty, v.Type))
	p, _ := v.Obj().Get("p")
	if o.P == nil {
		sv.Assert("nil-pointer-is-nothing", p != nil && p.Type.Kind == types.KMaybe && p.Maybe().V == nil)
	} else {
		sv.Assert("non-nil-pointer-is-just-the-number", p != nil && p.Type.Kind == types.KMaybe && p.Maybe().V != nil && sv.Same(p.Maybe().V.Num().V, pv))
	}
	q, _ := v.Obj().Get("q")
	if qPresent && q != nil && q.Type.Kind == types.KMaybe && q.Maybe().V != nil {
		checkLeaf(q.Maybe().V, leaf, "q")
	}
	lv, _ := v.Obj().Get("l")
	if ln == 2 {
		okl := lv != nil && lv.Type.Kind == types.KMaybe && lv.Maybe().V != nil && len(lv.Maybe().V.List().V) == 1
		sv.Assert("slice-element-order-and-content", okl && sv.Same(lv.Maybe().V.List().V[0].Num().V, float64(l0)))
	}
	at, _ := v.Obj().Get("at")
	sv.Assert("instant-preserved", at != nil && at.Type.Kind == types.KTime && at.Time().V.Unix() == sec)
	sv.Reach("converted")
}

// H15_nest: nested structs, pointers, slices, arrays, maps with primitive keys.
func H15_nest() {
	var n hNest
	n.In = someLeaf("in")
	pl := someLeaf("ptr")
	n.Ptr = &pl
	xn := sv.Choice("xs", 3)
	x0, x1 := sv.Float64("x0"), sv.Float64("x1")
	n.Xs = []float64{x0, x1}[:xn]
	n.Ys = [2]int16{int16(sv.Int("y0")), int16(sv.Int("y1"))}
	n.M = map[string]hLeaf{}
	if sv.Choice("m", 2) == 1 {
		n.M["k"] = someLeaf("mk")
	}
	n.K = map[int]string{}
	kk := sv.Int("kk")
	if sv.Choice("k", 2) == 1 {
		n.K[kk] = "v"
	}
	i := sv.Int("pp")
	pi := &i
	n.PP = &pi
	var v *val.Val
	var err error
	cls := sv.Outcome(func() { v, err = conv.ValOf(n) })
	sv.Assert("conversion-does-not-panic", cls == "ok")
	sv.Assert("converts", err == nil)
	if cls != "ok" || err != nil {
		return
	}
	sv.Assert("well-formed", RefWellTyped(v, v.Type) == "")
	want := ObjT([]string{"in", "ptr", "xs", "ys", "m", "k", "pp"}, []*types.Type{tLeaf, tLeaf, tLN, tLN, types.Map(tStr, tLeaf), tMNS, tNum})
	sv.Assert("type-is-the-same-for-every-value-of-the-go-type", RefTypeEq(v.Type, want))
	ty, terr := conv.TypeOf(n)
	sv.Assert("type-of-value-equals-reported-type", terr == nil && RefTypeEq(ty, v.Type))
	in, _ := v.Obj().Get("in")
	checkLeaf(in, n.In, "in")
	pv, _ := v.Obj().Get("ptr")
	checkLeaf(pv, pl, "ptr")
	xs, _ := v.Obj().Get("xs")
	okx := xs != nil && xs.Type.Kind == types.KList && len(xs.List().V) == xn
	sv.Assert("sequence-length", okx)
	if okx && xn == 2 {
		sv.Assert("sequence-order", sv.Same(xs.List().V[0].Num().V, x0) && sv.Same(xs.List().V[1].Num().V, x1))
	}
	pp, _ := v.Obj().Get("pp")
	sv.Assert("pointer-to-pointer-dereferenced", pp != nil && pp.Type.Kind == types.KNum && sv.Same(pp.Num().V, float64(i)))
	sv.Reach("converted")
}

type hCyc struct {
	N    float64 `yae:"n"`
	Next *hCyc   `yae:"next"`
}

// H15_errors: unsupported or inconsistent data is reported as an error.
func H15_errors() {
	var v interface{}
	wantErr := true
	var nilp *hLeaf
	k := sv.Choice("case", 25)
	deep := k == 22 || k == 23
	switch k {
	case 22: // nesting beyond the depth limit (100)
		var x interface{} = 1.5
		for i := 0; i < 150; i++ {
			x = []interface{}{x}
		}
		v = x
	case 23: // a cyclic structure never ends
		n := &hCyc{N: 1}
		n.Next = n
		v = n
	case 24: // deep, but within the limit
		var x interface{} = 1.5
		for i := 0; i < 40; i++ {
			x = []interface{}{x}
		}
		v = x
		wantErr = false
	case 18: // kinds with no counterpart in the language
		v = uintptr(7)
	case 19:
		v = struct{ H uintptr }{7}
	case 20:
		v = []uintptr{1, 2}
	case 21:
		v = map[string]uintptr{"k": 1}
	case 12: // typed nil containers are nil, not empty containers
		v = []int(nil)
	case 13:
		v = map[string]int(nil)
	case 14:
		v = [][]int{{1}, nil}
	case 15:
		v = map[string][]string{"xs": nil}
	case 16:
		v = [2][]float64{{1}, nil}
	case 17: // their non-nil empty twins convert
		v = map[string][]string{"xs": {}}
		wantErr = false
	case 0:
		v = nil
	case 1:
		v = nilp
	case 2:
		v = []interface{}{1, "a"}
	case 3:
		v = make(chan int)
	case 4:
		v = func() {}
	case 5:
		v = complex(1, 2)
	case 6:
		v = struct{ C chan int }{make(chan int)}
	case 7:
		v = map[string]interface{}{"a": 1, "b": "x"}
	case 8:
		v = []interface{}{1, 2.5, uint8(3)} // consistent: all numbers
		wantErr = false
	case 9:
		v = hEmpty{}
		wantErr = false
	case 10:
		v = []interface{}{map[string]int{"a": 1}, map[string]int{}}
		wantErr = false
	case 11:
		v = map[string]interface{}{"a": []int{1}, "b": []int{}}
		wantErr = false
	}
	var r *val.Val
	var err error
	cls := sv.Outcome(func() { r, err = conv.ValOf(v) })
	sv.Assert("conversion-does-not-panic", cls == "ok")
	if cls != "ok" {
		return
	}
	if wantErr {
		sv.Reach("bad-input")
		sv.Assert("reported-as-an-error", err != nil && r == nil)
		var ty *types.Type
		cls = sv.Outcome(func() { ty, err = conv.TypeOf(v) })
		sv.Assert("type-conversion-does-not-panic", cls == "ok")
		if deep {
			sv.Assert("nesting-beyond-the-limit-has-no-type-either", cls != "ok" || (err != nil && ty == nil))
		}
	} else {
		sv.Reach("good-input")
		sv.Assert("accepted", err == nil && r != nil)
		if err == nil {
			sv.Assert("well-formed", RefWellTyped(r, r.Type) == "")
		}
	}
}

// H15_env: a struct / map host value gives environments whose types agree, so
// that an expression compiled against one sample accepts every other value.
func H15_env() {
	a, b := someLeaf("a"), anyLeaf("b")
	te, err1 := conv.TypeEnvOf(a)
	ve, err2 := conv.ValEnvOf(b)
	sv.Assert("environments-built", err1 == nil && err2 == nil)
	if err1 != nil || err2 != nil {
		return
	}
	ok := true
	te.ForEach(func(name string, ty *types.Type) {
		v, found := ve.Get(name)
		ok = ok && found && RefTypeEq(ty, v.Type)
	})
	sv.Assert("every-value-of-the-go-type-conforms-to-the-sample's-type-environment", ok)
	// map environments
	m1 := map[string]interface{}{"x": sv.Int("x"), "s": "str", "l": []float64{sv.Float64("l0")}}
	m2 := map[string]interface{}{"x": 5, "s": AnyStr("s2"), "l": []float64{}}
	te2, e1 := conv.TypeEnvOf(m1)
	ve2, e2 := conv.ValEnvOf(m2)
	sv.Assert("map-environments-built", e1 == nil && e2 == nil)
	if e1 == nil && e2 == nil {
		ok = true
		te2.ForEach(func(name string, ty *types.Type) {
			v, found := ve2.Get(name)
			ok = ok && found && RefTypeEq(ty, v.Type)
		})
		sv.Assert("map-values-of-equal-go-types-conform", ok)
	}
	// a map environment with a concrete element type: each entry's type is
	// the type of that entry's value (nil pointers included), the same from
	// TypeEnvOf, ValEnvOf and TypeOf
	one := 1.5
	pick := func(name string) *float64 {
		if sv.Bool(name) {
			return &one
		}
		return nil
	}
	m3 := map[string]hPtrs{"a": {P: pick("a.p")}, "b": {P: pick("b.p"), Q: &hLeaf{}}}
	te3, e3 := conv.TypeEnvOf(m3)
	ve3, e4 := conv.ValEnvOf(m3)
	sv.Assert("typed-map-environments-built", e3 == nil && e4 == nil)
	if e3 == nil && e4 == nil {
		ok = true
		te3.ForEach(func(name string, ty *types.Type) {
			v, found := ve3.Get(name)
			ok = ok && found && RefTypeEq(ty, v.Type)
			t1, e := conv.TypeOf(m3[name])
			ok = ok && e == nil && RefTypeEq(ty, t1)
		})
		sv.Assert("entry-type-is-the-type-of-that-entry's-value", ok)
	}
	sv.Reach("checked")
}

// untagged pointer fields: non-nil they are plain values
type hPtrs struct {
	P *float64 `yae:"p"`
	Q *hLeaf   `yae:"q"`
}
type hPt struct {
	X, Y float64
}
type hSeg struct {
	From hPt  `yae:"from"`
	To   hPt  `yae:"to"`
	Via  *hPt `yae:"via,maybe"`
}

type hHolder struct {
	Segs []hSeg          `yae:"segs"`
	SegM map[string]hSeg `yae:"segm"`
	O  *hPtrs           `yae:"o,maybe"`
	Xs []hPtrs          `yae:"xs"`
	M  map[string]hPtrs `yae:"m"`
	A  [1]hPtrs         `yae:"a"`
}

// H15_shape: the type of a Go value whose nil-able parts are non-nil or
// declared optional depends on the Go type only: it is the same whether a
// container of structs is empty or populated and whether an optional struct
// pointer is nil or set - so an expression compiled against one sample
// accepts the other.
func H15_shape() {
	mk := func(name string, filled bool) hHolder {
		f := sv.Float64(name + ".p")
		leaf := someLeaf(name + ".q")
		one := hPtrs{P: &f, Q: &leaf}
		h := hHolder{Xs: []hPtrs{}, M: map[string]hPtrs{}, A: [1]hPtrs{one}, Segs: []hSeg{}, SegM: map[string]hSeg{}}
		if filled {
			h.Segs = []hSeg{{From: hPt{1, 2}, To: hPt{3, 4}}}
			h.SegM["s"] = hSeg{Via: &hPt{5, 6}}
			h.O = &one
			h.Xs = []hPtrs{one}
			h.M["k"] = one
		}
		return h
	}
	which := sv.Choice("part", 6) // which part differs between the two samples
	a, b := mk("a", false), mk("b", false)
	full := mk("f", true)
	switch which {
	case 0:
		b.O = full.O
	case 1:
		b.Xs = full.Xs
	case 2:
		b.M = full.M
	case 3:
		b.Segs = full.Segs
	case 4:
		b.SegM = full.SegM
	default:
		a, b = full, mk("b", true)
	}
	var ta, tb *types.Type
	var va, vb *val.Val
	var e1, e2, e3, e4 error
	cls := sv.Outcome(func() {
		ta, e1 = conv.TypeOf(a)
		tb, e2 = conv.TypeOf(b)
		va, e3 = conv.ValOf(a)
		vb, e4 = conv.ValOf(b)
	})
	sv.Assert("conversion-does-not-panic", cls == "ok")
	sv.Assert("converts", e1 == nil && e2 == nil && e3 == nil && e4 == nil)
	if cls != "ok" || e1 != nil || e2 != nil || e3 != nil || e4 != nil {
		return
	}
	if !RefTypeEq(ta, tb) {
		sv.Logf("types differ: %s  vs  %s", ta.String(), tb.String())
	}
	sv.Assert("type-is-the-same-for-every-value-of-the-go-type", RefTypeEq(ta, tb))
	sv.Assert("type-of-value-equals-reported-type", RefTypeEq(va.Type, ta) && RefTypeEq(vb.Type, tb))
	sv.Assert("well-formed", RefWellTyped(va, va.Type) == "" && RefWellTyped(vb, vb.Type) == "")
	inner := ObjT([]string{"p", "q"}, []*types.Type{tNum, tLeaf})
	pt := ObjT([]string{"X", "Y"}, []*types.Type{tNum, tNum})
	seg := ObjT([]string{"from", "to", "via"}, []*types.Type{pt, pt, types.Maybe(pt)})
	want := ObjT([]string{"segs", "segm", "o", "xs", "m", "a"}, []*types.Type{types.List(seg), types.Map(tStr, seg), types.Maybe(inner), types.List(inner), types.Map(tStr, inner), types.List(inner)})
	sv.Assert("type-is-the-one-the-go-type-dictates", RefTypeEq(ta, want))
	sv.Reach("compared")
}

type hP struct {
	P *int `yae:"p"`
}
type hX struct {
	X interface{} `yae:"x"`
}

// H15_mixed: containers whose Go element type is concrete but whose elements
// convert to different types (through a nested interface value, or a pointer
// field that is nil in one element and set in another) are inconsistent data:
// an error, never an ill-formed value - whichever element Go's map iteration
// visits first. Their consistent twins convert.
func H15_mixed() {
	i := sv.Int("i")
	var v interface{}
	wantErr := true
	switch sv.Choice("case", 12) {
	case 0:
		v = map[string][]interface{}{"a": {1}, "b": {"x"}}
	case 1:
		v = map[string]hP{"a": {nil}, "b": {&i}}
	case 2:
		v = map[int]hX{1: {1}, 2: {"s"}}
	case 3:
		v = []hP{{nil}, {&i}}
	case 4:
		v = [][]interface{}{{1}, {"x"}}
	case 5:
		v = map[string]map[string]interface{}{"a": {"k": 1}, "b": {"k": "s"}}
	case 6:
		v = map[string]*hX{"a": {true}, "b": {2.5}, "c": {true}}
	case 7:
		v = map[string][]interface{}{"a": {1}, "b": {2.5}}
		wantErr = false
	case 8:
		v = map[string]hP{"a": {&i}, "b": {&i}}
		wantErr = false
	case 9:
		v = map[int]hX{1: {1}, 2: {uint8(7)}}
		wantErr = false
	case 10:
		v = []hP{{&i}, {&i}}
		wantErr = false
	default:
		v = map[string]hP{"a": {nil}, "b": {nil}}
		wantErr = false
	}
	sv.MapOrder(1)
	var r *val.Val
	var ty *types.Type
	var err, terr error
	cls := sv.Outcome(func() {
		r, err = conv.ValOf(v)
		ty, terr = conv.TypeOf(v)
	})
	sv.MapOrder(0)
	sv.Assert("conversion-does-not-panic", cls == "ok")
	if cls != "ok" {
		return
	}
	if err == nil {
		sv.Assert("a-converted-value-is-well-formed", r != nil && RefWellTyped(r, r.Type) == "")
		sv.Assert("type-of-value-equals-reported-type", terr != nil || RefTypeEq(ty, r.Type))
	}
	if wantErr {
		sv.Reach("inconsistent")
		sv.Assert("inconsistent-data-reported-as-an-error", err != nil && r == nil)
	} else {
		sv.Reach("consistent")
		sv.Assert("accepted", err == nil && r != nil)
	}
}

type hTimes struct {
	At   time.Time            `yae:"at"`
	PT   *time.Time           `yae:"pt,maybe"`
	Ts   []*time.Time         `yae:"ts"`
	ByT  map[time.Time]int    `yae:"byt"`
	ByPT map[*time.Time]string `yae:"bypt"`
}

// H15_times: instants keep their full resolution as values and as map keys
// (two keys one nanosecond apart are two entries), and a pointer to an
// instant has the type of an instant whether it is nil (declared optional),
// set, or only the element type of an empty slice.
func H15_times() {
	base := time.Unix(1700000000, 0)
	t1, t2 := base, base.Add(time.Nanosecond)
	t3 := base.Add(time.Second)
	h := hTimes{At: t1, Ts: []*time.Time{}, ByT: map[time.Time]int{t1: 1, t2: 2, t3: 3}, ByPT: map[*time.Time]string{}}
	if sv.Choice("pt-present", 2) == 1 {
		h.PT = &t2
	}
	if sv.Choice("ts-filled", 2) == 1 {
		h.Ts = []*time.Time{&t1, &t3}
	}
	sv.MapOrder(1)
	var v *val.Val
	var err error
	cls := sv.Outcome(func() { v, err = conv.ValOf(h) })
	sv.MapOrder(0)
	sv.Assert("conversion-does-not-panic", cls == "ok")
	sv.Assert("converts", err == nil)
	if cls != "ok" || err != nil {
		return
	}
	want := ObjT([]string{"at", "pt", "ts", "byt", "bypt"}, []*types.Type{tTime, types.Maybe(tTime), types.List(tTime), types.Map(tTime, tNum), types.Map(tTime, tStr)})
	if !RefTypeEq(v.Type, want) {
		sv.Logf("type %s, expected %s", v.Type.String(), want.String())
	}
	sv.Assert("type-is-the-same-for-every-value-of-the-go-type", RefTypeEq(v.Type, want))
	sv.Assert("well-formed", RefWellTyped(v, v.Type) == "")
	byt, _ := v.Obj().Get("byt")
	ok := byt != nil && byt.Type.Kind == types.KMap && len(byt.Map().V) == 3
	sv.Assert("map-entries-with-keys-a-nanosecond-apart-are-kept-apart", ok)
	if ok {
		for _, kv := range []struct {
			k time.Time
			w float64
		}{{t1, 1}, {t2, 2}, {t3, 3}} {
			x, found := byt.Map().Get(val.Time(kv.k))
			sv.Assert("each-instant-selects-its-own-entry", found && x.Num().V == kv.w)
		}
	}
	sv.Reach("converted")
}
