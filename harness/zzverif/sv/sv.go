//go:build verif

// Package sv is the harness API. Under the symbolic executor (symgo) every
// call is intercepted and the bodies below never run; in a native build the
// bodies read a witness file, so that a counterexample found by the solver
// can be replayed against the real code.
package sv

import (
	"encoding/json"
	"fmt"
	"math"
	"os"
	"runtime"
	"strconv"
	"strings"
)

type input struct {
	Sort string `json:"sort"`
	Bits string `json:"bits"`
}
type choice struct {
	Name string `json:"name"`
	K    int    `json:"k"`
	N    int    `json:"n"`
	used bool
}
type witness struct {
	Harness string           `json:"harness"`
	Assert  string           `json:"assert"`
	Inputs  map[string]input `json:"inputs"`
	Choices []choice         `json:"choices"`
}

var (
	w        witness
	seen     = map[string]int{}
	failed   []string
	stdout   strings.Builder
)

func bits(name string) uint64 {
	n := seen[name]
	seen[name] = n + 1
	full := name
	if n > 0 {
		full = fmt.Sprintf("%s#%d", name, n)
	}
	in, ok := w.Inputs[full]
	if !ok {
		return 0
	}
	v, _ := strconv.ParseUint(strings.TrimPrefix(in.Bits, "0x"), 16, 64)
	return v
}

func Float64(name string) float64 { return math.Float64frombits(bits(name)) }
func Float32(name string) float32 { return math.Float32frombits(uint32(bits(name))) }
func Int(name string) int         { return int(bits(name)) }
func Int64(name string) int64     { return int64(bits(name)) }
func Byte(name string) byte       { return byte(bits(name)) }
func Rune(name string) rune       { return rune(int32(uint32(bits(name)))) }
func Bool(name string) bool       { return bits(name) == 1 }
func Str(name string, n int) string {
	b := make([]byte, n)
	for k := range b {
		b[k] = byte(bits(fmt.Sprintf("%s[%d]", name, k)))
	}
	return string(b)
}

// Choice is a structural selector in [0,n).
func Choice(name string, n int) int {
	if n <= 1 {
		return 0
	}
	// witnesses list choices in path order; they are matched by name
	for i := range w.Choices {
		c := &w.Choices[i]
		if c.Name == name && c.N == n && !c.used {
			c.used = true
			return c.K
		}
	}
	fmt.Printf("SVMISMATCH choice %q/%d not in witness\n", name, n)
	return 0
}

type assumeFalse struct{}

func Assume(c bool) {
	if !c {
		panic(assumeFalse{})
	}
}
func Assert(id string, c bool) {
	if !c {
		Fail(id)
	}
}
func Fail(id string) {
	failed = append(failed, id)
	fmt.Printf("SVFAIL %s\n", id)
}
func Reach(label string)           {}
func Region(name string, c bool)   {}
func Thorough() bool               { return os.Getenv("VERIF_TIER") == "thorough" }
func MapOrder(mode int)            {}
func Note(s string)                {}
func Stdout() string               { return "" }
func Symbolic() bool               { return false }
func Event() int                   { return 0 }
func Steps() int                   { return 0 }
func MoreFuel(n int)               {}

// Cost runs f and returns a deterministic measure of the work it did: under
// the engine the number of SSA instructions executed, natively the number of
// heap allocations (a wall-clock-free proxy that grows with re-done work).
// The two scales differ; harnesses only compare costs of one kind with each
// other (growth ratios).
func Cost(f func()) int {
	var m0, m1 runtime.MemStats
	t0 := ticks
	runtime.ReadMemStats(&m0)
	f()
	runtime.ReadMemStats(&m1)
	return int(m1.Mallocs-m0.Mallocs) + 200*(ticks-t0)
}

var ticks int

// Tick is called by harness-defined host functions: natively it counts their
// invocations into Cost (work that is re-done without allocating anything
// would otherwise be invisible to the native cost measure); under the engine
// it is an ordinary (cheap) call.
func Tick() { ticks++ }
func ConcreteInt(v, lo, hi int) int { return v }
func Logf(format string, a ...interface{}) {
	fmt.Printf("  [harness] "+format+"\n", a...)
}

// Same is bit-for-bit identity of doubles with all NaNs identified (SMT "=").
func Same(a, b float64) bool {
	if a != a && b != b {
		return true
	}
	return math.Float64bits(a) == math.Float64bits(b)
}
func IsNaN(a float64) bool { return a != a }
func And(cs ...bool) bool {
	for _, c := range cs {
		if !c {
			return false
		}
	}
	return true
}
func Or(cs ...bool) bool {
	for _, c := range cs {
		if c {
			return true
		}
	}
	return false
}
func Implies(a, b bool) bool { return !a || b }
func Iff(a, b bool) bool     { return a == b }
func IteF(c bool, a, b float64) float64 {
	if c {
		return a
	}
	return b
}
func IteI(c bool, a, b int) int {
	if c {
		return a
	}
	return b
}
func IteB(c bool, a, b bool) bool {
	if c {
		return a
	}
	return b
}
func StrEq(a, b string) bool { return a == b }

// Outcome runs f and classifies how it ended: "ok", "assert:<message>",
// "rt:index", "rt:nil", "rt:divide", "rt:typeassert", "rt:other",
// "panic:<text>". (The engine additionally reports "cast".)
func Outcome(f func()) (class string) {
	defer func() {
		if r := recover(); r != nil {
			if _, ok := r.(assumeFalse); ok {
				panic(r)
			}
			class = classify(r)
		}
	}()
	f()
	return "ok"
}

func classify(r interface{}) string {
	switch e := r.(type) {
	case runtime.Error:
		m := e.Error()
		switch {
		case strings.Contains(m, "index out of range"), strings.Contains(m, "slice bounds out of range"):
			return "rt:index"
		case strings.Contains(m, "nil pointer"):
			return "rt:nil"
		case strings.Contains(m, "divide by zero"):
			return "rt:divide"
		case strings.Contains(m, "interface conversion"):
			return "rt:typeassert"
		}
		return "rt:other"
	case error:
		return "assert:" + e.Error()
	case string:
		return "panic:" + e
	case fmt.Stringer:
		return "panic:" + e.String()
	}
	return "panic:?"
}

// ReplayMain runs the harness named in the witness file natively.
func ReplayMain(path string, hs map[string]func()) {
	data, err := os.ReadFile(path)
	if err != nil {
		fmt.Printf("SVERROR %v\n", err)
		return
	}
	if err := json.Unmarshal(data, &w); err != nil {
		fmt.Printf("SVERROR %v\n", err)
		return
	}
	h, ok := hs[w.Harness]
	if !ok {
		fmt.Printf("SVERROR no harness %s\n", w.Harness)
		return
	}
	func() {
		defer func() {
			if r := recover(); r != nil {
				if _, ok := r.(assumeFalse); ok {
					fmt.Printf("SVASSUME assumption false natively\n")
					return
				}
				fmt.Printf("SVFAIL panic-escaped\nSVPANIC %s: %v\n", classify(r), r)
			}
		}()
		h()
	}()
	fmt.Printf("SVDONE %d\n", len(failed))
}

// Setup runs f once per process (engine: once per worker, outside the
// per-path undo log) and returns its result on every path. f must not
// depend on symbolic values or make choices.
func Setup(key string, f func() interface{}) interface{} { return f() }

// Repeats is 1 under the engine (where map iteration order is a symbolic
// schedule) and n natively (where Go's own random order has to be sampled to
// reproduce an order-dependent counterexample).
func Repeats(n int) int { return n }

// CaptureStdout runs f and returns what it wrote to standard output.
func CaptureStdout(f func()) string {
	old := os.Stdout
	r, w, err := os.Pipe()
	if err != nil {
		f()
		return ""
	}
	os.Stdout = w
	done := make(chan string)
	go func() {
		var sb strings.Builder
		buf := make([]byte, 4096)
		for {
			n, err := r.Read(buf)
			sb.Write(buf[:n])
			if err != nil {
				break
			}
		}
		done <- sb.String()
	}()
	func() {
		defer func() {
			os.Stdout = old
			w.Close()
		}()
		f()
	}()
	return <-done
}
