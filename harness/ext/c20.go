//go:build verif

package ext

import (
	"strconv"
	"time"

	"github.com/goghcrow/yae/ext/sql"
	"github.com/goghcrow/yae/parser/ast"
	"github.com/goghcrow/yae/parser/pos"
	"github.com/goghcrow/yae/types"
	"github.com/goghcrow/yae/val"
	"github.com/goghcrow/yae/zzverif/sv"
)

// ---- reference reader of the generated WHERE text (standard precedence:
// comparison, then NOT, then AND, then OR; "…" literals with backslash
// escapes; `…` names)

type sqlTok struct {
	kind string // name str num kw op ( ) ,
	text string // for str: the raw literal including quotes
}

func sqlLex(s string) ([]sqlTok, bool) {
	var out []sqlTok
	i := 0
	for i < len(s) {
		c := s[i]
		switch {
		case c == ' ':
			i++
		case c == '(' || c == ')' || c == ',':
			out = append(out, sqlTok{string(c), string(c)})
			i++
		case c == '`':
			j := i + 1
			for j < len(s) && s[j] != '`' {
				j++
			}
			if j >= len(s) {
				return nil, false
			}
			out = append(out, sqlTok{"name", s[i+1 : j]})
			i = j + 1
		case c == '"':
			j := i + 1
			for j < len(s) && s[j] != '"' {
				if s[j] == '\\' {
					j++
				}
				j++
			}
			if j >= len(s) {
				return nil, false
			}
			out = append(out, sqlTok{"str", s[i : j+1]})
			i = j + 1
		case c == '=' || c == '<' || c == '>':
			j := i + 1
			for j < len(s) && (s[j] == '=' || s[j] == '>') {
				j++
			}
			out = append(out, sqlTok{"op", s[i:j]})
			i = j
		case c == '-' || c == '+' || c >= '0' && c <= '9':
			j := i + 1
			for j < len(s) && (s[j] == '.' || s[j] >= '0' && s[j] <= '9') {
				j++
			}
			out = append(out, sqlTok{"num", s[i:j]})
			i = j
		case c >= 'A' && c <= 'Z' || c >= 'a' && c <= 'z' || c == '_':
			j := i + 1
			for j < len(s) && (s[j] >= 'A' && s[j] <= 'Z' || s[j] >= 'a' && s[j] <= 'z' || s[j] == '_') {
				j++
			}
			out = append(out, sqlTok{"kw", s[i:j]})
			i = j
		default:
			return nil, false
		}
	}
	return out, true
}

type sqlParser struct {
	toks []sqlTok
	i    int
	bad  bool
}

func (p *sqlParser) peek() sqlTok {
	if p.i < len(p.toks) {
		return p.toks[p.i]
	}
	return sqlTok{"eof", ""}
}
func (p *sqlParser) eat() sqlTok { t := p.peek(); p.i++; return t }
func (p *sqlParser) isKw(k string) bool {
	t := p.peek()
	return t.kind == "kw" && t.text == k
}

// shapes: or(a,b,…) and(a,b,…) not(a) cond:<field>:<op>:<operand>;…
func (p *sqlParser) or() string {
	parts := []string{p.and()}
	for p.isKw("OR") {
		p.eat()
		parts = append(parts, p.and())
	}
	if len(parts) == 1 {
		return parts[0]
	}
	return "or(" + join(parts) + ")"
}
func (p *sqlParser) and() string {
	parts := []string{p.not()}
	for p.isKw("AND") {
		p.eat()
		parts = append(parts, p.not())
	}
	if len(parts) == 1 {
		return parts[0]
	}
	return "and(" + join(parts) + ")"
}
func (p *sqlParser) not() string {
	if p.isKw("NOT") {
		p.eat()
		return "not(" + p.not() + ")"
	}
	return p.pred()
}
func (p *sqlParser) operand() string {
	t := p.eat()
	switch t.kind {
	case "name":
		return "`" + t.text + "`"
	case "str", "num":
		return t.text
	case "kw":
		if t.text == "from_unixtime" && p.peek().kind == "(" {
			p.eat()
			n := p.eat()
			if p.eat().kind != ")" {
				p.bad = true
			}
			return "from_unixtime(" + n.text + ")"
		}
	}
	p.bad = true
	return "?"
}
func (p *sqlParser) pred() string {
	if p.peek().kind == "(" {
		p.eat()
		s := p.or()
		if p.eat().kind != ")" {
			p.bad = true
		}
		return s
	}
	lhs := p.operand()
	t := p.peek()
	switch {
	case t.kind == "op":
		p.eat()
		return "cond:" + lhs + ":" + t.text + ":" + p.operand()
	case t.kind == "kw" && t.text == "LIKE":
		p.eat()
		return "cond:" + lhs + ":LIKE:" + p.operand()
	case t.kind == "kw" && t.text == "IN":
		p.eat()
		if p.eat().kind != "(" {
			p.bad = true
		}
		items := []string{}
		for p.peek().kind != ")" && p.peek().kind != "eof" {
			items = append(items, p.operand())
			if p.peek().kind == "," {
				p.eat()
			}
		}
		p.eat()
		return "cond:" + lhs + ":IN:" + join(items)
	case t.kind == "kw" && t.text == "BETWEEN":
		p.eat()
		lo := p.operand()
		if !p.isKw("AND") {
			p.bad = true
		}
		p.eat()
		return "cond:" + lhs + ":BETWEEN:" + lo + "," + p.operand()
	case t.kind == "kw" && t.text == "IS":
		p.eat()
		if !p.isKw("NULL") {
			p.bad = true
		}
		p.eat()
		return "cond:" + lhs + ":ISNULL:"
	}
	p.bad = true
	return "?"
}

func join(xs []string) string {
	out := ""
	for i, x := range xs {
		if i > 0 {
			out += ";"
		}
		out += x
	}
	return out
}

func readSQL(s string) (string, bool) {
	toks, ok := sqlLex(s)
	if !ok {
		return "", false
	}
	p := &sqlParser{toks: toks}
	shape := p.or()
	return shape, !p.bad && p.i == len(toks)
}

// ---- criteria generator with the shape it must read back as

var nastyStrings = []string{"admin", "a\"b", "x\\", "\\\"; DROP", "line\nbreak", "tab\t\x00", "é晓", "\xff\xfe", "", "' OR 1=1 --", "%_\\%"}

type gen20 struct {
	bound  map[string]*val.Val // names bound in the run-time environment
	tenv   *types.Env
	simple bool
	seq    int // > 0: leaves are numbered instead of chosen (H20_deep)
}

// seqCond: the k-th leaf of a tree, all distinct, cycling through a plain
// comparison, an IN list and a comparison with a bound instant (the last two
// render with a closing parenthesis at their right end)
func (g *gen20) seqCond() (Criteria, string) {
	k := g.seq
	g.seq++
	ks := strconv.Itoa(k)
	switch k % 3 {
	case 1:
		return Cond{Field: "n", Operator: sql.GT, Operands: []ast.Expr{ast.Num(ks, pos.Unknown)}}, "cond:" + g.fieldText("n") + ":>:" + ks
	case 2:
		a, b := ast.Num(ks, pos.Unknown), ast.Num(ks+"1", pos.Unknown)
		return Cond{Field: "n", Operator: sql.IN, Operands: []ast.Expr{ast.List([]ast.Expr{a, b}, pos.Unknown)}}, "cond:" + g.fieldText("n") + ":IN:" + ks + ";" + ks + "1"
	default:
		return Cond{Field: "t", Operator: sql.GT, Operands: []ast.Expr{ast.Var("u", pos.Unknown)}}, "cond:" + g.fieldText("t") + ":>:" + g.fieldText("u")
	}
}

func (g *gen20) numLit(name string) (ast.Expr, string) {
	pool := []string{"1", "42", "1.5", "0", "100000000000000000000", "2.9999999999", "0.0000000001", "1000000.0000000001", "-0.5"}
	s := pool[sv.Choice(name, len(pool))]
	f, _ := strconv.ParseFloat(s, 64)
	want := strconv.FormatFloat(f, 'f', -1, 64)
	return ast.Num(s, pos.Unknown), want
}

func (g *gen20) strLit(name string) (ast.Expr, string) {
	s := nastyStrings[sv.Choice(name, len(nastyStrings))]
	if sv.Choice(name+".raw", 2) == 1 {
		// the same string written as a raw literal (back quotes, nothing escaped)
		return ast.Str("`"+s+"`", pos.Unknown), strconv.Quote(s)
	}
	return ast.Str(strconv.Quote(s), pos.Unknown), strconv.Quote(s)
}

func (g *gen20) fieldText(f string) string {
	if v, ok := g.bound[f]; ok {
		switch v.Type.Kind {
		case types.KNum:
			return strconv.FormatFloat(v.Num().V, 'f', -1, 64)
		case types.KStr:
			return strconv.Quote(v.Str().V)
		case types.KBool:
			if v.Bool().V {
				return "1"
			}
			return "0"
		case types.KTime:
			return "from_unixtime(" + strconv.FormatInt(v.Time().V.Unix(), 10) + ")"
		}
	}
	return "`" + f + "`"
}

// simple: three fixed leaf conditions (structure harness)
func (g *gen20) simpleCond(name string) (Criteria, string) {
	switch sv.Choice(name+".leaf", 3) {
	case 0:
		return Cond{Field: "n", Operator: sql.GT, Operands: []ast.Expr{ast.Num("1", pos.Unknown)}}, "cond:" + g.fieldText("n") + ":>:1"
	case 1:
		return Cond{Field: "s", Operator: sql.ISNULL, Operands: nil}, "cond:" + g.fieldText("s") + ":ISNULL:"
	default:
		return Cond{Field: "m", Operator: sql.BETWEEN, Operands: []ast.Expr{ast.Num("1", pos.Unknown), ast.Num("100", pos.Unknown)}}, "cond:" + g.fieldText("m") + ":BETWEEN:1,100"
	}
}

func (g *gen20) cond(name string) (Criteria, string) {
	if g.seq > 0 {
		return g.seqCond()
	}
	if g.simple {
		return g.simpleCond(name)
	}
	switch sv.Choice(name+".kind", 10) {
	case 8: // an IN list that mixes literals with names (bound in the environment or not), literal first
		e1, w1 := g.numLit(name + ".a")
		return Cond{Field: "n", Operator: sql.IN, Operands: []ast.Expr{ast.List([]ast.Expr{e1, ast.Var("m", pos.Unknown), ast.Var("n", pos.Unknown)}, pos.Unknown)}},
			"cond:" + g.fieldText("n") + ":IN:" + w1 + ";" + g.fieldText("m") + ";" + g.fieldText("n")
	case 9: // ... and name first
		e1, w1 := g.strLit(name + ".a")
		return Cond{Field: "s", Operator: sql.IN, Operands: []ast.Expr{ast.List([]ast.Expr{ast.Var("s", pos.Unknown), e1}, pos.Unknown)}},
			"cond:" + g.fieldText("s") + ":IN:" + g.fieldText("s") + ";" + w1
	case 0:
		op := []string{sql.EQ, sql.NE, sql.GT, sql.GE, sql.LT, sql.LE}[sv.Choice(name+".op", 6)]
		e, w := g.numLit(name + ".n")
		return Cond{Field: "n", Operator: op, Operands: []ast.Expr{e}}, "cond:" + g.fieldText("n") + ":" + op + ":" + w
	case 1:
		op := []string{sql.EQ, sql.NE}[sv.Choice(name+".op", 2)]
		e, w := g.strLit(name + ".s")
		return Cond{Field: "s", Operator: op, Operands: []ast.Expr{e}}, "cond:" + g.fieldText("s") + ":" + op + ":" + w
	case 2:
		e, w := g.strLit(name + ".s")
		return Cond{Field: "s", Operator: sql.LIKE, Operands: []ast.Expr{e}}, "cond:" + g.fieldText("s") + ":LIKE:" + w
	case 3:
		e1, w1 := g.numLit(name + ".lo")
		e2, w2 := g.numLit(name + ".hi")
		return Cond{Field: "n", Operator: sql.BETWEEN, Operands: []ast.Expr{e1, e2}}, "cond:" + g.fieldText("n") + ":BETWEEN:" + w1 + "," + w2
	case 4:
		e1, w1 := g.strLit(name + ".a")
		e2, w2 := g.strLit(name + ".b")
		return Cond{Field: "s", Operator: sql.IN, Operands: []ast.Expr{ast.List([]ast.Expr{e1, e2}, pos.Unknown)}}, "cond:" + g.fieldText("s") + ":IN:" + w1 + ";" + w2
	case 5:
		return Cond{Field: "n", Operator: sql.ISNULL, Operands: nil}, "cond:" + g.fieldText("n") + ":ISNULL:"
	case 6: // another column / bound name on the right-hand side
		return Cond{Field: "n", Operator: sql.EQ, Operands: []ast.Expr{ast.Var("m", pos.Unknown)}}, "cond:" + g.fieldText("n") + ":=:" + g.fieldText("m")
	default:
		op := []string{sql.GT, sql.LE}[sv.Choice(name+".op", 2)]
		return Cond{Field: "t", Operator: op, Operands: []ast.Expr{ast.Var("u", pos.Unknown)}}, "cond:" + g.fieldText("t") + ":" + op + ":" + g.fieldText("u")
	}
}

// tree of depth <= d; the shape flattens AND/AND and OR/OR as the reader does
func (g *gen20) tree(d int, name string) (Criteria, string) {
	if d == 0 {
		return g.cond(name)
	}
	switch sv.Choice(name+".node", 4) {
	case 0:
		return g.cond(name)
	case 1:
		c, s := g.tree(d-1, name+".x")
		return CondGroup{LogicalOper: NOT, Conds: []Criteria{c}}, "not(" + s + ")"
	case 2:
		l, ls := g.tree(d-1, name+".l")
		r, rs := g.tree(d-1, name+".r")
		return CondGroup{LogicalOper: AND, Conds: []Criteria{l, r}}, "and(" + flat("and", ls) + ";" + flat("and", rs) + ")"
	default:
		l, ls := g.tree(d-1, name+".l")
		r, rs := g.tree(d-1, name+".r")
		return CondGroup{LogicalOper: OR, Conds: []Criteria{l, r}}, "or(" + flat("or", ls) + ";" + flat("or", rs) + ")"
	}
}

func flat(op, s string) string {
	pre := op + "("
	if len(s) > len(pre) && s[:len(pre)] == pre && s[len(s)-1] == ')' {
		// only a top-level group of the same connective is flattened
		depth := 0
		for i := 0; i < len(s)-1; i++ {
			if s[i] == '(' {
				depth++
			} else if s[i] == ')' {
				depth--
				if depth == 0 {
					return s
				}
			}
		}
		return s[len(pre) : len(s)-1]
	}
	return s
}

func sqlEnv() *types.Env {
	tenv := types.NewEnv()
	tenv.Put("n", types.Num)
	tenv.Put("m", types.Num)
	tenv.Put("s", types.Str)
	tenv.Put("t", types.Time)
	tenv.Put("u", types.Time)
	tenv.Put("b", types.Bool)
	return tenv
}

func checkSQL(g *gen20, c Criteria, want string) {
	venv := val.NewEnv()
	for k, v := range g.bound {
		venv.Put(k, v)
	}
	var text string
	var err error
	cls := sv.Outcome(func() { text, err = CompileToSql(c, g.tenv)(venv) })
	sv.Assert("generation-does-not-panic", cls == "ok")
	sv.Assert("generates", err == nil)
	if cls != "ok" || err != nil {
		return
	}
	got, ok := readSQL(text)
	if !ok || got != want {
		sv.Logf("text %q reads as %s, criteria is %s", text, got, want)
	}
	sv.Assert("text-is-well-formed-sql", ok)
	sv.Assert("reads-back-as-the-criteria-tree", got == want)
	sv.Reach("read-back")
}

// H20_structure: every AND / OR / NOT tree to depth 2 (3 in the thorough
// tier over two leaves) reads back, under standard SQL precedence, with the
// same conditions, connectives and nesting.
func H20_structure() {
	g := &gen20{bound: map[string]*val.Val{}, tenv: sqlEnv(), simple: true}
	if sv.Choice("bound", 2) == 1 {
		g.bound["m"] = val.Num(42)
	}
	depth := 2
	c, want := g.tree(depth, "c")
	checkSQL(g, c, want)
}

// H20_operands: every condition kind with hostile string operands, boundary
// numbers, times and bound / unbound names, alone and under NOT / AND / OR.
func H20_operands() {
	g := &gen20{bound: map[string]*val.Val{}, tenv: sqlEnv()}
	switch sv.Choice("bound", 4) {
	case 1:
		g.bound["m"] = val.Num([]float64{42, 2.5, 1e19}[sv.Choice("m", 3)])
	case 2:
		g.bound["s"] = val.Str(nastyStrings[sv.Choice("s", len(nastyStrings))])
		g.bound["u"] = val.Time(time.Unix(1700000000, 0))
	case 3:
		g.bound["n"] = val.Num(7)
		g.bound["m"] = val.Num(-0.5)
	}
	c, want := g.cond("c")
	switch sv.Choice("context", 3) {
	case 1:
		c, want = CondGroup{LogicalOper: NOT, Conds: []Criteria{c}}, "not("+want+")"
	case 2:
		g.simple = true
		o, os := g.simpleCond("o")
		c, want = CondGroup{LogicalOper: OR, Conds: []Criteria{CondGroup{LogicalOper: AND, Conds: []Criteria{c, o}}, o}}, "or(and("+want+";"+os+");"+os+")"
	}
	checkSQL(g, c, want)
}

// H20_deep: every AND / OR / NOT tree to depth 3 over numbered leaves (all
// distinct; plain comparisons, IN lists and from_unixtime(...) operands in
// turn), so that groups whose text begins and ends with a parenthesis occur
// under every connective.
func H20_deep() {
	g := &gen20{bound: map[string]*val.Val{}, tenv: sqlEnv(), seq: 1}
	g.bound["u"] = val.Time(time.Unix(1700000000, 0))
	c, want := g.tree(3, "c")
	checkSQL(g, c, want)
}
