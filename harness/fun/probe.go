//go:build verif

package fun

import (
	"github.com/goghcrow/yae/types"
	"github.com/goghcrow/yae/val"
	"github.com/goghcrow/yae/zzverif/sv"
)

func H00_numcmp() {
	x := val.Num(sv.Float64("x")).Num()
	y := val.Num(sv.Float64("y")).Num()
	sv.Assume(x.V == x.V && y.V == y.V)
	sv.Assert("lt-ge-partition", val.NumLT(x, y) != val.NumGE(x, y))
	sv.Assert("eq-ne-partition", val.NumEQ(x, y) != val.NumNE(x, y))
}

func H00_getlist() {
	ty := types.List(types.Num).List()
	l := val.List(ty, 2).List()
	l.V[0] = val.Num(sv.Float64("e0"))
	l.V[1] = val.Num(sv.Float64("e1"))
	i := val.Num(sv.Float64("i"))
	d := val.Num(7)
	r := GET_LIST_NUM_ANY.Fun().Call(l.Vl(), i, d)
	sv.Assert("nonnil", r != nil)
}

func H00_confuse() {
	s := val.Str("hello")
	n := s.Num() // type-confused cast
	sv.Assert("x", n.V == 1)
}

func H00_key() {
	a := val.Num(sv.Float64("a")).Num()
	b := val.Num(sv.Float64("b")).Num()
	sv.Assume(a.V == a.V && b.V == b.V)
	sv.Assume(a.IsInt() && b.IsInt())
	sv.Assume(a.V-b.V > 1 || b.V-a.V > 1)
	sv.Assert("distinct-ints-distinct-int64", a.Int() != b.Int())
}

func H00_render() {
	a := val.Num(sv.Float64("a"))
	b := val.Num(sv.Float64("b"))
	sv.Assume(a.Num().V-b.Num().V > 1)
	sv.Assert("distinct-render", a.String() != b.String())
}
