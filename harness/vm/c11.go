//go:build verif

package vm

import (
	"github.com/goghcrow/yae/zzverif/sv"
)

// Operand encoding kernels, fully symbolic: every admitted integer round
// trips, every other one is refused at compile time.

func H11_u16() {
	i := sv.Int("i")
	sv.Assume(i >= 0)
	b := &bytecode{cp: &cp{}}
	cls := sv.Outcome(func() { b.emitUint16(i) })
	sv.Assert("refused-iff-beyond-16-bits", (cls == "ok") == (i <= 0xFFFF))
	if cls == "ok" {
		sv.Reach("encoded")
		sv.Assert("two-bytes", len(b.code) == 2)
		sv.Assert("round-trip", b.readUint16(0) == i)
		n, w := b.readMediumInt(0)
		sv.Assert("medium-int-round-trip", n == i && w == 2)
	} else {
		sv.Reach("refused")
		sv.Assert("refusal-is-the-overflow-error", cls == "assert:overflow")
		sv.Assert("nothing-emitted", len(b.code) == 0)
	}
}

func H11_u8() {
	i := sv.Int("i")
	sv.Assume(i >= 0)
	b := &bytecode{cp: &cp{}}
	cls := sv.Outcome(func() { b.emitUint8(i) })
	sv.Assert("refused-iff-beyond-8-bits", (cls == "ok") == (i <= 0xFF))
	if cls == "ok" {
		sv.Reach("encoded")
		sv.Assert("one-byte", len(b.code) == 1)
		sv.Assert("round-trip", b.readUint8(0) == i)
	} else {
		sv.Assert("nothing-emitted", len(b.code) == 0)
	}
}

// a placeholder patched later holds exactly the patched value and leaves the
// surrounding code alone
func H11_patch() {
	pre, target := sv.Byte("pre"), sv.Int("target")
	sv.Assume(target >= 0)
	b := &bytecode{cp: &cp{}}
	b.emit(pre)
	patch := b.placeholderForMediumInt()
	b.emit(0xAB)
	cls := sv.Outcome(func() { patch(target) })
	sv.Assert("refused-iff-beyond-16-bits", (cls == "ok") == (target <= 0xFFFF))
	if cls == "ok" {
		n, _ := b.readMediumInt(1)
		sv.Assert("patched-value", n == target)
		sv.Assert("neighbours-untouched", b.code[0] == pre && b.code[3] == 0xAB && len(b.code) == 4)
		sv.Reach("patched")
	}
}

// constants are addressed by their own index
func H11_const() {
	n := sv.Choice("prior", 4)
	b := &bytecode{cp: &cp{}}
	for k := 0; k < n; k++ {
		b.addConst(k)
	}
	marker := sv.Int("marker")
	b.emitConst(marker)
	b.addConst("after")
	c, w := b.readConst(0)
	sv.Assert("constant-operand-addresses-its-constant", w == 2 && c.(int) == marker)
	sv.Reach("read")
}
