//go:build verif

package vm

import (
	"unsafe"

	"github.com/goghcrow/yae/compiler"
	"github.com/goghcrow/yae/parser/ast"
	"github.com/goghcrow/yae/types"
	"github.com/goghcrow/yae/val"
)

// ZZCompileCallThreaded is vm.Compile with the call-threaded dispatch loop
// (the VM.interp field is unexported).
func ZZCompileCallThreaded(expr ast.Expr, env1 *val.Env) compiler.Closure {
	bytecode := NewCompile().Compile(expr, env1)
	return func(env *val.Env) *val.Val {
		v := &VM{stack: newStack(), interp: callThreading}
		return v.Interp(bytecode, env)
	}
}

// ZZProgram is a read-only view of a compiled program.
type ZZProgram struct {
	Code []byte
	Data []interface{}
}

func ZZCompileProgram(expr ast.Expr, env1 *val.Env) ZZProgram {
	b := NewCompile().Compile(expr, env1)
	return ZZProgram{b.code, b.data}
}

// ZZThunk returns the body of a deferred-argument constant.
func ZZThunk(c interface{}) (prog ZZProgram, ok bool) {
	v, isVal := c.(*val.Val)
	if !isVal || v == nil || v.Type == nil || v.Type.Kind != types.KFun {
		return ZZProgram{}, false
	}
	f := v.Type.Fun()
	if f.Name != "thunk" || len(f.Param) != 0 {
		return ZZProgram{}, false
	}
	t := (*thunkVal)(unsafe.Pointer(v))
	return ZZProgram{t.bytecode.code, t.bytecode.data}, true
}

const (
	ZZ_END          = int(_END_)
	ZZ_STACK_INIT   = stackInit
	ZZ_OP_RETURN    = int(OP_RETURN)
	ZZ_OP_CONST     = int(OP_CONST)
	ZZ_OP_LOAD      = int(OP_LOAD)
	ZZ_OP_NEW_LIST  = int(OP_NEW_LIST)
	ZZ_OP_NEW_MAP   = int(OP_NEW_MAP)
	ZZ_OP_NEW_OBJ   = int(OP_NEW_OBJ)
	ZZ_OP_LIST_LOAD = int(OP_LIST_LOAD)
	ZZ_OP_MAP_LOAD  = int(OP_MAP_LOAD)
	ZZ_OP_OBJ_LOAD  = int(OP_OBJ_LOAD)
	ZZ_OP_CALL_BY_VALUE = int(OP_CALL_BY_VALUE)
	ZZ_OP_CALL_BY_NEED  = int(OP_CALL_BY_NEED)
	ZZ_OP_DYNAMIC_CALL  = int(OP_DYNAMIC_CALL)
	ZZ_OP_IF_TRUE   = int(OP_IF_TRUE)
	ZZ_OP_JUMP      = int(OP_JUMP)
	ZZ_OP_LOGICAL_NOT = int(OP_LOGICAL_NOT)
	ZZ_OP_NOP       = int(OP_NOP)
	ZZ_OP_GET_MAYBE = int(OP_GET_MAYBE)
)

// ZZOpName names an opcode.
func ZZOpName(op int) string { return opcode(op).String() }
