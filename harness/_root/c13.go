//go:build verif

package yae

import (
	"github.com/goghcrow/yae/closure"
	"github.com/goghcrow/yae/compiler"
	"github.com/goghcrow/yae/interp"
	"github.com/goghcrow/yae/types"
	"github.com/goghcrow/yae/val"
	"github.com/goghcrow/yae/vm"
	"github.com/goghcrow/yae/zzverif/hx"
	"github.com/goghcrow/yae/zzverif/sv"
)

func backendOf(k int) compiler.Compiler {
	switch k {
	case 0:
		return vm.Compile
	case 1:
		return vm.ZZCompileCallThreaded
	case 2:
		return closure.Compile
	default:
		return interp.Interp
	}
}

func exprWith(k int) *Expr { return NewExpr().UseCompiler(backendOf(k)) }

// strMap builds map[str,num] with the given keys (values symbolic).
func strMap(name string, keys []string) *val.Val {
	m := val.Map(types.Map(types.Str, types.Num).Map()).Map()
	for i, k := range keys {
		// the first value symbolic, the others concrete: iteration order is
		// what is quantified here (rendering of numbers is C18)
		if i == 0 {
			m.Put(val.Str(k), val.Num(sv.Float64(name+".v0")))
		} else {
			m.Put(val.Str(k), val.Num(float64(i)+0.5))
		}
	}
	return m.Vl()
}

// strMapLike: an equal map built from fresh objects.
func strMapLike(m *val.Val) *val.Val {
	out := val.Map(m.Type.Map()).Map()
	for k, v := range m.Map().V {
		out.V[k] = val.Num(v.Num().V)
	}
	return out.Vl()
}

var c13Render = []string{
	"string(m)",
	"string([m])",
	"string({f: m})",
	"string(m) == string(m)",
	"string(union([m], [m]))",
	// the same map value at two positions of one rendered value
	"string([m, m])", "string({f: m, g: m})", "string([\"a\": m, \"b\": m])", "string([[m], [m]]) + string(m)",
	// ... and under two names: whether m2 is the very same value object as m or an equal one makes no difference
	"string([m, m2])", "string({f: m, g: m2}) + string([m2, m])", "string([[m2], [m, m2]])",
}

// H13_render: text produced from a value does not depend on the iteration
// order of Go maps.
func H13_render() {
	src := c13Render[sv.Choice("prog", len(c13Render))]
	n := sv.Choice("entries", 3) // 0, 1 or 2 entries (the empty map included)
	if sv.Thorough() {
		n = sv.Choice("entries", 4)
	}
	keys := []string{"k", "a\"b", "é"}[:n]
	m := strMap("m", keys)
	tenv := types.NewEnv()
	tenv.Put("m", m.Type)
	tenv.Put("m2", m.Type)
	e := exprWith(sv.Choice("backend", hx.NBackends))
	c, err := e.Compile(src, tenv)
	sv.Assert("compiles", err == nil)
	twin := strMapLike(m) // an equal value built from fresh objects
	second := m
	run := func() *val.Val {
		venv := val.NewEnv()
		venv.Put("m", m)
		venv.Put("m2", second)
		r, err := c(venv)
		sv.Assert("evaluates", err == nil && r != nil)
		return r
	}
	base := run()
	second = twin
	sv.Assert("same-text-whether-a-value-is-shared-or-copied", hx.RefSameVal(base, run()))
	second = m
	sv.MapOrder(1) // every iteration order from here on
	for i := 0; i < sv.Repeats(300); i++ {
		again := run()
		sv.Assert("same-text-for-every-map-order", hx.RefSameVal(base, again))
	}
	sv.MapOrder(0)
	sv.Reach("compared")
}

var c13Quiet = []string{
	"union(xs, ys)", "intersect(xs, ys)", "diff(xs, ys)", "string(xs)", "len(xs) + max(xs) + min(ys)",
	"xs == ys", "get(xs, 0, 1)", "[xs, ys]", "if(xs == ys, xs, ys)",
}

// H13_stdout: evaluation writes nothing to standard output unless the program
// calls print.
func H13_stdout() {
	src := c13Quiet[sv.Choice("prog", len(c13Quiet))]
	lt := types.List(types.Num)
	tenv := types.NewEnv()
	tenv.Put("xs", lt)
	tenv.Put("ys", lt)
	e := exprWith(sv.Choice("backend", hx.NBackends))
	c, err := e.Compile(src, tenv)
	sv.Assert("compiles", err == nil)
	venv := val.NewEnv()
	hx.NumPool = []float64{1, 2.5}
	venv.Put("xs", hx.AnyVal(lt, "xs"))
	venv.Put("ys", hx.AnyVal(lt, "ys"))
	hx.NumPool = nil
	out := sv.CaptureStdout(func() { _, err = c(venv) })
	sv.Assert("evaluates", err == nil)
	sv.Assert("nothing-on-stdout", sv.StrEq(out, ""))
	// print does write, exactly once
	c2, err := e.Compile("print(1)", types.NewEnv())
	sv.Assert("compiles-print", err == nil)
	out = sv.CaptureStdout(func() { _, err = c2(val.NewEnv()) })
	sv.Assert("print-writes", err == nil && sv.StrEq(out, "1\n"))
	sv.Reach("checked")
}

// H13_reuse: histories over {compile e1, compile e2, invoke c1, invoke c2}
// that reuse the same environment objects give the results of fresh ones.
func H13_reuse() {
	e := exprWith(sv.Choice("backend", hx.NBackends))
	tenv := types.NewEnv()
	tenv.Put("a", types.Num)
	tenv.Put("xs", types.List(types.Num))
	a := sv.Float64("a")
	venv := val.NewEnv()
	venv.Put("a", val.Num(a))
	hx.NumPool = []float64{1, 2.5}
	venv.Put("xs", hx.AnyVal(types.List(types.Num), "xs"))
	hx.NumPool = nil
	srcs := []string{"a + 1", "[a, 2][0] * len(xs)"}
	want := func(k int) float64 {
		if k == 0 {
			return a + 1
		}
		return a * float64(len(venv.MustGet("xs").List().V))
	}
	var cs [2]Callable
	steps := 3
	for s := 0; s < steps; s++ {
		k := sv.Choice("expr"+hx.Itoa(s), 2)
		if sv.Choice("op"+hx.Itoa(s), 2) == 0 || cs[k] == nil {
			var err error
			cls := sv.Outcome(func() { cs[k], err = e.Compile(srcs[k], tenv) }) // same *types.Env every time
			sv.Assert("recompile-with-reused-type-env", cls == "ok" && err == nil)
			if err != nil {
				return
			}
		}
		var r *val.Val
		var err error
		cls := sv.Outcome(func() { r, err = cs[k](venv) }) // same *val.Env every time
		sv.Assert("invoke-with-reused-value-env", cls == "ok" && err == nil)
		if cls == "ok" && err == nil {
			sv.Assert("same-result-as-fresh", r != nil && r.Type == types.Num && sv.Same(r.Num().V, want(k)))
		}
	}
	sv.Reach("history-done")
}

var c13Sets = []string{
	"union(xs, ys)", "string(union(xs, ys))", "union(xs, ys)[3]", "union(ys, xs) == union(ys, xs)",
	"intersect(ys, xs)", "diff(ys, xs)", "string(intersect(ys, ys)) + string(diff(ys, xs))", "union(union(xs, ys), ys)",
}

// H13_sets: the set functions keep their elements in Go maps internally; what
// they return (element order included) must not depend on how those maps
// happen to be iterated. The right operand contributes several elements that
// the left one lacks.
func H13_sets() {
	src := c13Sets[sv.Choice("prog", len(c13Sets))]
	lt := types.List(types.Num)
	tenv := types.NewEnv()
	tenv.Put("xs", lt)
	tenv.Put("ys", lt)
	e := exprWith(sv.Choice("backend", hx.NBackends))
	c, err := e.Compile(src, tenv)
	sv.Assert("compiles", err == nil)
	mk := func(xs ...float64) *val.Val {
		l := val.List(lt.List(), len(xs)).List()
		for i, x := range xs {
			l.V[i] = val.Num(x)
		}
		return l.Vl()
	}
	first := sv.Float64("x0")
	sv.Assume(sv.And(first > 100, first < 1000)) // apart from the concrete elements
	xs, ys := mk(first, 2), mk(9, 8.5, 2, 7)
	if sv.Thorough() {
		ys = mk(9, 8.5, 2, 7, -1)
	}
	run := func() *val.Val {
		venv := val.NewEnv()
		venv.Put("xs", xs)
		venv.Put("ys", ys)
		r, err := c(venv)
		sv.Assert("evaluates", err == nil && r != nil)
		return r
	}
	base := run()
	sv.MapOrder(1) // every iteration order of every Go map from here on
	for i := 0; i < sv.Repeats(300); i++ {
		again := run()
		sv.Assert("same-result-for-every-map-order", hx.RefSameVal(base, again))
	}
	sv.MapOrder(0)
	sv.Reach("compared")
}

// H13_again: one compiled closure invoked on several environments in turn.
// Every result - and every line printed - is that of the environment at hand;
// nothing computed for an earlier invocation (a forced lazy operand, say) is
// kept. The programs use a host-registered lazy function, whose operands
// reach the back ends as deferred computations.
func H13_again() {
	e := exprWith(sv.Choice("backend", hx.NBackends))
	e.RegisterFun(val.LazyFun(types.Fun("when", []*types.Type{types.Bool, types.Num, types.Num}, types.Num), func(args ...*val.Val) *val.Val {
		if args[0].Fun().Call().Bool().V {
			return args[1].Fun().Call()
		}
		return args[2].Fun().Call()
	}))
	e.RegisterFun(val.LazyFun(types.Fun("both", []*types.Type{types.Num, types.Num}, types.Num), func(args ...*val.Val) *val.Val {
		return val.Num(args[0].Fun().Call().Num().V + args[1].Fun().Call().Num().V)
	}))
	type prog struct {
		src  string
		want func(c bool, a, b float64) float64
		out  func(c bool) string
	}
	none := func(bool) string { return "" }
	progs := []prog{
		{"when(c, a + 1, b)", func(c bool, a, b float64) float64 { return sv.IteF(c, a+1, b) }, none},
		{"both(a, b) + when(c, b, a)", func(c bool, a, b float64) float64 { return (a + b) + sv.IteF(c, b, a) }, none},
		{"when(c, both(a, a), both(b, 1))", func(c bool, a, b float64) float64 { return sv.IteF(c, a+a, b+1) }, none},
		{"when(c, print(7), print(8)) + a", func(c bool, a, b float64) float64 { return sv.IteF(c, 7, 8) + a }, func(c bool) string {
			if c {
				return "7\n"
			}
			return "8\n"
		}},
	}
	p := progs[sv.Choice("prog", len(progs))]
	tenv := types.NewEnv()
	tenv.Put("a", types.Num)
	tenv.Put("b", types.Num)
	tenv.Put("c", types.Bool)
	cl, err := e.Compile(p.src, tenv)
	sv.Assert("compiles", err == nil)
	if err != nil {
		return
	}
	for k := 0; k < 3; k++ {
		n := hx.Itoa(k)
		a, b, c := sv.Float64("a"+n), sv.Float64("b"+n), sv.Bool("c"+n)
		venv := val.NewEnv()
		venv.Put("a", val.Num(a))
		venv.Put("b", val.Num(b))
		cv := val.False
		if c {
			cv = val.True
		}
		venv.Put("c", cv)
		var r *val.Val
		out := sv.CaptureStdout(func() { r, err = cl(venv) })
		sv.Assert("evaluates", err == nil && r != nil)
		if err == nil && r != nil {
			sv.Assert("result-is-that-of-the-environment-at-hand", r.Type == types.Num && sv.Same(r.Num().V, p.want(c, a, b)))
			sv.Assert("output-is-that-of-the-environment-at-hand", sv.StrEq(out, p.out(c)))
		}
	}
	sv.Reach("invoked-three-times")
}

// H13_recover: a failing invocation leaves the Callable as good as new. One
// compiled closure is invoked on a good environment, on one that makes a
// partial operation fail, and on the good one again: first and third results
// are the same value, the second is an error.
func H13_recover() {
	e := exprWith(sv.Choice("backend", hx.NBackends))
	srcs := []string{"xs[i] + a", "m[k] + a", "a % i", "match(k, k) ? a : a + 1", "[xs[i], a][0] * 2"}
	k := sv.Choice("prog", len(srcs))
	lt, mt := types.List(types.Num), types.Map(types.Str, types.Num)
	tenv := types.NewEnv()
	tenv.Put("xs", lt)
	tenv.Put("m", mt)
	tenv.Put("i", types.Num)
	tenv.Put("k", types.Str)
	tenv.Put("a", types.Num)
	c, err := e.Compile(srcs[k], tenv)
	sv.Assert("compiles", err == nil)
	if err != nil {
		return
	}
	a := sv.Float64("a")
	xs := val.List(lt.List(), 2).List()
	xs.V[0], xs.V[1] = val.Num(3), val.Num(4)
	m := val.Map(mt.Map()).Map()
	m.Put(val.Str("k"), val.Num(5))
	mk := func(good bool) *val.Env {
		venv := val.NewEnv()
		venv.Put("xs", xs.Vl())
		venv.Put("m", m.Vl())
		venv.Put("a", val.Num(a))
		if good {
			venv.Put("i", val.Num(1))
			venv.Put("k", val.Str("k"))
		} else {
			venv.Put("i", []*val.Val{val.Num(7), val.Num(7), val.Num(0), val.Num(1), val.Num(-1)}[k])
			venv.Put("k", []*val.Val{val.Str("k"), val.Str("zz"), val.Str("k"), val.Str("("), val.Str("k")}[k])
		}
		return venv
	}
	var rs [3]*val.Val
	var errs [3]error
	for step, good := range []bool{true, false, true} {
		st := step
		g := good
		cls := sv.Outcome(func() { rs[st], errs[st] = c(mk(g)) })
		sv.Assert("callable-does-not-panic", cls == "ok")
		if cls != "ok" {
			return
		}
	}
	sv.Assert("good-environment-evaluates", errs[0] == nil && rs[0] != nil)
	sv.Assert("failing-environment-reports-an-error", errs[1] != nil)
	sv.Assert("good-environment-evaluates-again-after-a-failure", errs[2] == nil && rs[2] != nil)
	if errs[0] == nil && errs[2] == nil && rs[0] != nil && rs[2] != nil {
		sv.Assert("same-result-before-and-after-the-failure", hx.RefSameVal(rs[0], rs[2]))
	}
	sv.Reach("three-invocations")
}

type c13Ext struct {
	N   float64     `yae:"n"`
	Ext interface{} `yae:"ext"`
	L   []interface{} `yae:"l"`
}

// H13_host: what an evaluation returns depends on the environment it is
// given, not on environments of the same Go type converted earlier in the
// process (a host struct with interface-typed parts has a type of its own
// for every value).
func H13_host() {
	mk := func(kind int, name string) (c13Ext, string) {
		n := sv.Float64(name + ".n")
		switch kind {
		case 0:
			return c13Ext{N: n, Ext: 41, L: []interface{}{1, 2}}, "41|2"
		case 1:
			return c13Ext{N: n, Ext: "x", L: []interface{}{"p"}}, "x|1"
		default:
			return c13Ext{N: n, Ext: true, L: []interface{}{false, true, true}}, "true|3"
		}
	}
	api := sv.Choice("api", 2)
	for step := 0; step < 2; step++ {
		kind := sv.Choice("env"+hx.Itoa(step), 3)
		h, want := mk(kind, "env"+hx.Itoa(step))
		var r *val.Val
		var err error
		cls := sv.Outcome(func() {
			if api == 0 {
				r, err = Eval("string(ext) + \"|\" + string(len(l))", h)
			} else {
				var c Callable
				c, err = NewExpr().Compile("string(ext) + \"|\" + string(len(l))", h)
				if err == nil {
					r, err = c(&h)
				}
			}
		})
		sv.Assert("evaluation-does-not-panic", cls == "ok")
		sv.Assert("every-environment-is-judged-on-its-own", cls == "ok" && err == nil && r != nil && r.Type == types.Str && r.Str().V == want)
	}
	sv.Reach("two-evaluations")
}

// H13_resolve: one engine compiles the same source text twice, against
// environments in which its calls resolve to different overloads (a generic
// built-in for lists and maps, a monomorphic one for numbers and strings), in
// either order: the second compilation is that of a fresh engine - it
// succeeds, and gives the fresh engine's result on the same data.
func H13_resolve() {
	srcs := []string{"x == y", "x != y", "len(x) + len(y)", "string(x) == string(y)", "[x] == [y]", "max(len(x), 1)"}
	src := srcs[sv.Choice("prog", len(srcs))]
	tys := []*types.Type{types.Str, types.List(types.Num), types.Map(types.Str, types.Num), types.Num}
	n := len(tys)
	if src == "len(x) + len(y)" || src == "max(len(x), 1)" {
		n = 3 // len has no overload for numbers
	}
	t1 := tys[sv.Choice("T1", n)]
	t2 := tys[sv.Choice("T2", n)]
	b := sv.Choice("backend", hx.NBackends)
	e := exprWith(b)
	env := func(t *types.Type) *types.Env {
		te := types.NewEnv()
		te.Put("x", t)
		te.Put("y", t)
		return te
	}
	_, err := e.Compile(src, env(t1))
	sv.Assert("first-compilation", err == nil)
	c2, err := e.Compile(src, env(t2))
	sv.Assert("second-compilation-succeeds-like-the-first-of-a-fresh-engine", err == nil)
	fresh, ferr := exprWith(b).Compile(src, env(t2))
	sv.Assert("fresh-engine-compiles", ferr == nil)
	if err != nil || ferr != nil {
		return
	}
	hx.NumPool = []float64{1, 2.5}
	hx.MaxLenQuick = 2
	xv, yv := hx.AnyVal(t2, "x"), hx.AnyVal(t2, "y")
	hx.NumPool = nil
	hx.MaxLenQuick = 3
	venv := func() *val.Env {
		ve := val.NewEnv()
		ve.Put("x", xv)
		ve.Put("y", yv)
		return ve
	}
	r1, err1 := c2(venv())
	r2, err2 := fresh(venv())
	sv.Assert("evaluates-like-a-fresh-engine", (err1 == nil) == (err2 == nil))
	if err1 == nil && err2 == nil {
		sv.Assert("same-result-as-a-fresh-engine", hx.RefSameVal(r1, r2))
	}
	sv.Reach("recompiled")
}
