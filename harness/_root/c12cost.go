//go:build verif

package yae

import (
	"strings"

	"github.com/goghcrow/yae/types"
	"github.com/goghcrow/yae/val"
	"github.com/goghcrow/yae/zzverif/hx"
	"github.com/goghcrow/yae/zzverif/sv"
)

// The cost clause of C12: "Compile time grows at most polynomially with the
// length of the source and evaluation time with the size of the compiled
// expression, so short inputs cannot stall the host."
//
// Wall-clock time is not observable to a symbolic executor; the number of SSA
// instructions the real code executes is, and it is deterministic. H12_cost
// builds bracket nests of depth n and 2n from every wrapper (and every ordered
// pair of wrappers, alternating) below and asserts
//
//	cost(2n) - cost(1) <= 8 * (cost(n) - cost(1)) + 2 * cost(1) + 50     (any polynomial of degree <= 3)
//
// for Compile and for one invocation, on every back end (cost(1) removes the
// fixed price of setting an engine up). Work that is re-done
// per nesting level (trial-and-backtrack parsing, checking a child twice)
// multiplies the cost by 2^n and fails the assertion; natively the same
// assertion is replayed with heap allocations as the cost measure.

type c12Wrap struct{ pre, suf, leaf string }

var c12Wraps = []c12Wrap{
	{"[", "]", "a"},               // list literal
	{"[", ": 1]", "a"},            // map literal, nest in key position (ill typed beyond depth 1: the front end still has to answer)
	{"[\"k\": ", "]", "a"},        // map literal, nest in value position
	{"(", ")", "a"},               // parentheses
	{"{f: ", "}", "a"},            // object literal
	{"{f: ", "}.f", "a"},          // member of object literal
	{"[", "][0]", "a"},            // subscript of list literal
	{"-", "", "a"},                // prefix operator
	{"(1 + ", ")", "a"},           // binary operator, right nest
	{"true ? ", " : 1", "a"},      // ?: nest in the selected branch
	{"false ? 1 : ", "", "a"},     // ?: nest in the else branch
	{"if(true, ", ", 1)", "a"},    // lazy built-in
	{"len([", "])", "a"},          // call
	{"get([", "], 0, 1)", "a"},    // call with default
	{"true && ", "", "t"},         // lazy operator chain
	{"!", "", "t"},                // prefix on bool
	{"[", ", 1: 1]", "a"},         // map literal whose first key is the nest and a second pair follows
	{"[[", "]: 1]", "a"},          // list inside map key
	{"f0(", ")", "a"},             // host function
	{"lz(", ", 1)", "a"},          // host lazy function
	// chains that nest to the LEFT, whose left operand decides the result (a
	// lazy operator that looks at its left operand twice doubles the work per link)
	{"", " && tb()", "fb()"},
	{"", " || fb()", "tb()"},
	{"", " && t", "fb()"},
	{"fb() && ", "", "tb()"},
	{"tb() || ", "", "fb()"},
	{"", " + f0(a)", "f0(a)"},     // a left-nested strict chain
	// method-call sugar: the receiver is the nest (a chain), or an argument is
	{"", ".abs()", "a"},
	{"", ".max(a)", "a"},
	{"a.max(", ")", "a"},
}

func c12Nest(w1, w2 c12Wrap, n int) string {
	var pre, suf []string
	for k := 0; k < n; k++ {
		w := w1
		if k%2 == 1 {
			w = w2
		}
		pre = append(pre, w.pre)
		suf = append([]string{w.suf}, suf...)
	}
	leaf := w1.leaf
	if n%2 == 0 && n > 0 {
		// the innermost wrapper decides which leaf type fits
		leaf = w2.leaf
	}
	return strings.Join(pre, "") + leaf + strings.Join(suf, "")
}

func c12CostEnv(e *Expr) (*types.Env, *val.Env) {
	tenv, venv := types.NewEnv(), val.NewEnv()
	tenv.Put("a", types.Num)
	tenv.Put("t", types.Bool)
	venv.Put("a", val.Num(sv.Float64("a")))
	venv.Put("t", val.True)
	e.RegisterFun(val.Fun(types.Fun("f0", []*types.Type{types.Num}, types.Num), func(v ...*val.Val) *val.Val { sv.Tick(); return v[0] }))
	e.RegisterFun(val.Fun(types.Fun("tb", []*types.Type{}, types.Bool), func(v ...*val.Val) *val.Val { sv.Tick(); return val.True }))
	e.RegisterFun(val.Fun(types.Fun("fb", []*types.Type{}, types.Bool), func(v ...*val.Val) *val.Val { sv.Tick(); return val.False }))
	e.RegisterFun(val.LazyFun(types.Fun("lz", []*types.Type{types.Num, types.Num}, types.Num), func(v ...*val.Val) *val.Val { return v[0].Fun().Call() }))
	return tenv, venv
}

func H12_cost() {
	nw := len(c12Wraps)
	i := sv.Choice("wrapper", nw)
	j := i
	if sv.Choice("alternate", 2) == 1 {
		j = sv.Choice("wrapper2", nw)
	}
	backend := sv.Choice("backend", hx.NBackends)
	n := 6
	if sv.Thorough() {
		n = 7
	}
	var cost [3]int
	var ecost [3]int
	var evaluated [3]bool
	for k, d := range []int{n, 2 * n, 1} {
		src := c12Nest(c12Wraps[i], c12Wraps[j], d)
		e := exprWith(backend)
		tenv, venv := c12CostEnv(e)
		var c Callable
		var err error
		cls := sv.Outcome(func() {
			cost[k] = sv.Cost(func() { c, err = e.Compile(src, tenv) })
		})
		sv.Assert("no-panic-escapes-the-public-api", cls == "ok")
		if cls != "ok" {
			return
		}
		if err == nil {
			cls = sv.Outcome(func() {
				ecost[k] = sv.Cost(func() { _, _ = c(venv) })
			})
			sv.Assert("no-panic-escapes-the-public-api", cls == "ok")
			evaluated[k] = true
		}
	}
	sv.Logf("wrap %d/%d backend %d: compile %d %d -> %d, eval %d %d -> %d", i, j, backend, cost[2], cost[0], cost[1], ecost[2], ecost[0], ecost[1])
	sv.Assert("compile-cost-grows-polynomially-with-nesting-depth", cost[1]-cost[2] <= 8*(cost[0]-cost[2])+2*cost[2]+50)
	if evaluated[0] && evaluated[1] && evaluated[2] {
		sv.Reach("evaluated")
		sv.Assert("evaluation-cost-grows-polynomially-with-nesting-depth", ecost[1]-ecost[2] <= 8*(ecost[0]-ecost[2])+2*ecost[2]+50)
	} else {
		sv.Reach("rejected-at-compile-time")
	}
}
