//go:build verif

package yae

import (
	"github.com/goghcrow/yae/closure"
	"github.com/goghcrow/yae/interp"
	"github.com/goghcrow/yae/types"
	"github.com/goghcrow/yae/val"
	"github.com/goghcrow/yae/zzverif/sv"
)

func pickExpr() *Expr {
	switch sv.Choice("backend", 3) {
	case 0:
		return NewExpr()
	case 1:
		return NewExpr().UseCompiler(closure.Compile)
	default:
		return NewExpr().UseCompiler(interp.Interp)
	}
}

// D1: compile x.a + 1 against {a:num,b:str}, run with {b:str,a:num}
func H00_member() {
	s1 := types.Obj([]types.Field{{Name: "a", Val: types.Num}, {Name: "b", Val: types.Str}})
	s2 := types.Obj([]types.Field{{Name: "b", Val: types.Str}, {Name: "a", Val: types.Num}})
	tenv := types.NewEnv()
	tenv.Put("x", s1)
	e := pickExpr()
	c, err := e.Compile("x.a + 1", tenv)
	sv.Assert("compiles", err == nil)
	o := val.Obj(s2.Obj()).Obj()
	o.V[0] = val.Str("hello")
	a := sv.Float64("a")
	o.V[1] = val.Num(a)
	venv := val.NewEnv()
	venv.Put("x", o.Vl())
	var r *val.Val
	cls := sv.Outcome(func() { r, err = c(venv) })
	sv.Assert("no-fault", cls == "ok")
	sv.Assert("accepted", err == nil)
	sv.Assert("is-num", r.Type == types.Num)
	sv.Assert("value", sv.Same(r.Num().V, a+1))
}

func H00_ok() {
	s1 := types.Obj([]types.Field{{Name: "a", Val: types.Num}, {Name: "b", Val: types.Str}})
	tenv := types.NewEnv()
	tenv.Put("x", s1)
	tenv.Put("i", types.Num)
	e := pickExpr()
	c, err := e.Compile(`if(x.a > 1 && len(x.b) == 5, [x.a, 2, 3][i], get(["k": x.a], "z", 0 - 1))`, tenv)
	sv.Assert("compiles", err == nil)
	o := val.Obj(s1.Obj()).Obj()
	o.V[0] = val.Num(sv.Float64("a"))
	o.V[1] = val.Str("hello")
	venv := val.NewEnv()
	venv.Put("x", o.Vl())
	venv.Put("i", val.Num(sv.Float64("i")))
	var r *val.Val
	cls := sv.Outcome(func() { r, err = c(venv) })
	sv.Logf("class %s", cls)
	if cls == "ok" && err == nil {
		sv.Assert("is-num", r.Type == types.Num)
	}
	sv.Reach("end")
}
