//go:build verif

package yae

import (
	"math"

	"github.com/goghcrow/yae/conv"
	"github.com/goghcrow/yae/types"
	"github.com/goghcrow/yae/val"
	"github.com/goghcrow/yae/zzverif/hx"
	"github.com/goghcrow/yae/zzverif/sv"
)

type c12Prog struct {
	src   string
	fails func(i, a, b float64, k string) bool // per the language semantics
}

func never(i, a, b float64, k string) bool  { return false }
func always(i, a, b float64, k string) bool { return true }
func idxOut(i, a, b float64, k string) bool {
	t := math.Trunc(i)
	return !sv.And(i == i, t >= 0, t < 2)
}

var c12Progs = []c12Prog{
	{"xs[i]", idxOut},
	{"xs[i] + a", idxOut},
	{"m[k]", func(i, a, b float64, k string) bool { return k != "k" }},
	{"a % b", func(i, a, b float64, k string) bool { return int64(b) == 0 }},
	{"match(p, s)", always}, // p is an invalid regular expression
	{"match(s, p)", never},
	{"get(xs, i, a) + len(m)", never},
	{"if(i >= 0 && i < len(xs), xs[i], a)", never},
	{"1 +", always}, {"", always}, {"zz + 1", always}, {"a + s", always}, {"a b", always}, {"((a)", always},
	{"xs[i].q", always}, {"a < b < a", always}, {"type", always}, {"[1, \"a\"]", always}, {"\"unterminated", always},
	{"a ? a : b", always}, {"xs[s]", always}, {"m[a]", always}, {"f(a)", always}, {"a.b", always}, {"'not a time'", never},
}

// H12_run: every failure - syntax, type or run time - comes back through the
// error result of Eval, Compile, the Callable and Debug; none as a panic.
func H12_run() {
	p := c12Progs[sv.Choice("prog", len(c12Progs))]
	api := sv.Choice("api", 4)
	var i, a, b float64
	if api == 2 {
		// the debug report renders every intermediate value into a text grid;
		// its layout code needs concrete digits
		pool := []float64{0, 1, -1, 2.5, 7}
		i, a, b = pool[sv.Choice("i", 5)], pool[sv.Choice("a", 2)], pool[sv.Choice("b", 5)]
	} else {
		i, a, b = sv.Float64("i"), sv.Float64("a"), sv.Float64("b")
	}
	k := []string{"k", "z"}[sv.Choice("k", 2)]
	host := map[string]interface{}{
		"xs": []float64{1, 2}, "i": i, "a": a, "b": b, "k": k, "s": "x", "p": "(",
		"m": map[string]float64{"k": 1},
	}
	var res *val.Val
	var err error
	cls := sv.Outcome(func() {
		switch api {
		case 0:
			res, err = Eval(p.src, host)
		case 1:
			var c Callable
			c, err = NewExpr().Compile(p.src, host)
			if err == nil {
				res, err = c(host)
			}
		case 2:
			res, _, err = Debug(p.src, host)
		default:
			tenv, e1 := conv.TypeEnvOf(host)
			venv, e2 := conv.ValEnvOf(host)
			sv.Assert("environments-built", e1 == nil && e2 == nil)
			var c Callable
			c, err = NewExpr().UseClosureCompiler().Compile(p.src, tenv)
			if err == nil {
				res, err = c(venv)
			}
		}
	})
	sv.Assert("no-panic-escapes-the-public-api", cls == "ok")
	if cls != "ok" {
		return
	}
	if p.fails(i, a, b, k) {
		sv.Reach("failing")
		sv.Assert("failure-reported-through-the-error-result", err != nil && res == nil)
	} else {
		sv.Reach("succeeding")
		sv.Assert("success-returns-a-value", err == nil && res != nil)
	}
}

type c12Unsupported struct {
	C chan int
	F func()
}
type c12Ptrs struct {
	P *float64 `yae:"p,maybe"`
	Q *float64 `yae:"q"`
	L []int
}

type c12Reserved struct {
	Type   int    `yae:"type"`
	List   []int  `yae:"list"`
	Return string `yae:"return"`
}

type c12Node struct {
	Val  int      `yae:"val"`
	Next *c12Node `yae:"next"`
}
type c12Tree struct {
	Name     string    `yae:"name"`
	Children []c12Tree `yae:"children"`
}

// H12_host: nil, typed nil, pointers, nested and unsupported host values: a
// value or an error, never a panic.
func H12_host() {
	var host interface{}
	f := 1.5
	var nilS *c12Ptrs
	switch sv.Choice("host", 23) {
	case 0:
		host = nil
	case 1:
		host = nilS
	case 2:
		host = &c12Ptrs{P: &f, Q: &f, L: []int{1}}
	case 3:
		host = c12Ptrs{} // nil pointers and a nil slice inside
	case 4:
		host = c12Unsupported{make(chan int), func() {}}
	case 5:
		host = []interface{}{1, "a"}
	case 6:
		host = map[int]int{1: 2}
	case 7:
		host = 12
	case 8:
		host = map[string]interface{}{"p": nil, "L": []interface{}{}}
	case 9:
		host = map[string]interface{}{"p": &f, "x": map[string]interface{}{"y": []interface{}{1, "mixed"}}}
	case 10:
		pp := &f
		host = map[string]interface{}{"p": &pp, "L": [2]int{1, 2}}
	case 11:
		host = &nilS // pointer to a nil pointer
	case 12:
		var nm map[string]interface{}
		host = &nm // pointer to a nil map
	case 13:
		var ni interface{}
		host = &ni // pointer to a nil interface
	case 14:
		host = map[string]interface{}{"p": &nilS}
	case 15: // a Go type that refers to itself: finite list (ends in a nil link)
		host = &c12Node{Val: 1, Next: &c12Node{Val: 2}}
	case 16: // a ring
		n := &c12Node{Val: 1}
		n.Next = n
		host = n
	case 17: // self-reference through a slice, empty at the leaves
		host = c12Tree{Name: "root", Children: []c12Tree{{Name: "leaf", Children: []c12Tree{}}}}
	case 18:
		host = map[string]interface{}{"p": &c12Node{Val: 1}, "L": []c12Tree{}}
	case 19: // names that are reserved words of the language, as map keys and as field tags
		host = map[string]interface{}{"type": 1, "map": "m", "p": 2.5, "L": []int{1}}
	case 20:
		host = &c12Reserved{Type: 1, List: []int{2}, Return: "r"}
	case 21:
		host = map[string]int{"match": 1, "string": 2, "range": 3, "if": 4, "true": 5, "": 6, "a b": 7, "1x": 8}
	default:
		host = "a string"
	}
	src := []string{"1 + 1", "get(p, 0) + len(L)", "p", "L[0]", "val + 1", "len(children)"}[sv.Choice("src", 6)]
	api := sv.Choice("api", 3)
	cls := sv.Outcome(func() {
		switch api {
		case 0:
			_, _ = Eval(src, host)
		case 1:
			c, err := NewExpr().Compile(src, host)
			if err == nil {
				_, _ = c(host)
			}
		default:
			_, _, _ = Debug(src, host)
		}
	})
	sv.Assert("no-panic-escapes-the-public-api", cls == "ok")
	sv.Reach("called")
}

var c12Garbage = []string{
	"(((((((((((", "]]]]", "{{{{", "a..b", "a ? ? b", ": : :", "1.2.3", "0x", "0b2", "\"\\q\"", "`raw", "'", "a @ b", "a ~ b", "\x00", "\xff\xfe", "a\u2028b",
	"if(", "if(,)", "[:", "[,]", "{a}", "{a:}", "f(,)", "f((", "a[", "a[]", "a.", ".a", "1e", "1e+", "--a", "!!", "not", "and or", "a and", "true false",
	"((((((((((a))))))))))", "[[[[[[[[[[a]]]]]]]]]]", "a+-+-+-+-b", "a ? b : c ? d : e ? f : g", "\"\\u12\"", "0o8", "9999999999999999999999999999", "1e999",
}

// H12_src: malformed and odd source strings are answered with a value or an
// error by Compile (and by Eval), never with a panic.
func H12_src() {
	src := c12Garbage[sv.Choice("src", len(c12Garbage))]
	tenv := types.NewEnv()
	tenv.Put("a", types.Num)
	tenv.Put("b", types.Num)
	api := sv.Choice("api", 2)
	cls := sv.Outcome(func() {
		if api == 0 {
			c, err := exprWith(sv.Choice("backend", hx.NBackends)).Compile(src, tenv)
			if err == nil {
				venv := val.NewEnv()
				venv.Put("a", val.Num(1))
				venv.Put("b", val.Num(2))
				_, _ = c(venv)
			}
		} else {
			_, _ = Eval(src, map[string]interface{}{"a": 1, "b": 2})
		}
	})
	sv.Assert("no-panic-escapes-the-public-api", cls == "ok")
	sv.Reach("called")
}

// H12_bytes: source text as an arbitrary short buffer - every byte symbolic -
// through the whole front end (lexer, parser, desugarer, checker, compiler)
// and one evaluation: a value or an error, never a panic, for every byte.
func H12_bytes() {
	pre := []string{"", "a ", "a + ", "[", "f(", "\"", "1"}[sv.Choice("prefix", 7)]
	// quick: two arbitrary positions on their own, one after each prefix;
	// thorough: two after each prefix, through both APIs and every back end
	n := 1
	switch {
	case sv.Thorough() && pre == "" && sv.Choice("three", 2) == 1:
		n = 3 // three arbitrary positions on their own (thorough)
	case sv.Thorough() || pre == "":
		n = 1 + sv.Choice("len", 2)
	}
	src := pre + hx.AnyInput(n)
	api := 1
	if sv.Thorough() && n < 3 {
		api = sv.Choice("api", 2)
	}
	cls := sv.Outcome(func() {
		if api == 0 {
			tenv := types.NewEnv()
			tenv.Put("a", types.Num)
			c, err := exprWith(sv.Choice("backend", hx.NBackends)).Compile(src, tenv)
			if err == nil {
				venv := val.NewEnv()
				venv.Put("a", val.Num(1))
				_, _ = c(venv)
			}
		} else {
			_, _ = Eval(src, map[string]interface{}{"a": 1})
		}
	})
	sv.Assert("no-panic-escapes-the-public-api", cls == "ok")
	sv.Reach("called")
}

// H12_seq: a failing evaluation leaves the API usable. Two or three
// evaluations in a row in one process - the first ones fail at run time
// (invalid pattern, index, key, modulo) - through Eval and through one
// Callable: each returns (a later call never blocks on something an earlier
// failure left behind, never panics), and a later succeeding call returns its
// value.
func H12_seq() {
	type step struct {
		src  string
		host map[string]interface{}
		fail bool
	}
	bad := []step{
		{"match(p, s)", map[string]interface{}{"p": "(", "s": "x"}, true},
		{"match(p, s)", map[string]interface{}{"p": "[a-", "s": "x"}, true},
		{"xs[i]", map[string]interface{}{"xs": []float64{1}, "i": 5}, true},
		{"m[k]", map[string]interface{}{"m": map[string]float64{"k": 1}, "k": "z"}, true},
		{"a % b", map[string]interface{}{"a": 1, "b": 0}, true},
		{"1 +", map[string]interface{}{}, true},
	}
	good := []step{
		{"match(p, s)", map[string]interface{}{"p": "a+", "s": "caat"}, false},
		{"xs[i]", map[string]interface{}{"xs": []float64{1}, "i": 0}, false},
		{"m[k]", map[string]interface{}{"m": map[string]float64{"k": 1}, "k": "k"}, false},
		{"a % b", map[string]interface{}{"a": 7, "b": 2}, false},
	}
	first := bad[sv.Choice("first", len(bad))]
	steps := []step{first}
	if sv.Choice("again", 2) == 1 {
		steps = append(steps, first) // the same failure once more
	}
	steps = append(steps, good[sv.Choice("then", len(good))])
	viaCallable := sv.Choice("api", 2) == 1
	callables := map[string]Callable{}
	for k, st := range steps {
		var r *val.Val
		var err error
		cls := sv.Outcome(func() {
			if !viaCallable {
				r, err = Eval(st.src, st.host)
				return
			}
			c, ok := callables[st.src]
			if !ok {
				c, err = NewExpr().Compile(st.src, st.host)
				if err != nil {
					return
				}
				callables[st.src] = c
			}
			r, err = c(st.host)
		})
		sv.Assert("call-"+hx.Itoa(k)+"-returns-without-panic-or-block", cls == "ok")
		if cls != "ok" {
			return
		}
		if st.fail {
			sv.Assert("failure-reported-through-the-error-result", err != nil && r == nil)
		} else {
			sv.Assert("later-call-succeeds", err == nil && r != nil)
		}
	}
	sv.Reach("sequence-done")
}

// H12_lines: sources with line breaks (leading, inner, trailing, CR LF,
// doubled) through Eval, Compile + call and Debug: a value or an error, never
// a panic - Debug answers a source it cannot lay out on one line with its
// error result.
func H12_lines() {
	srcs := []string{"a + 1\n", "\na + 1", "a +\n1", "a + 1\r\n", "a + 1\n\n", "a + xs[1] > 2\n", "a + 1 \n ", "xs[5]\n", "a +\n", "\n"}
	src := srcs[sv.Choice("src", len(srcs))]
	host := map[string]interface{}{"xs": []float64{1, 2}, "a": 2.5}
	api := sv.Choice("api", 3)
	var res *val.Val
	var err error
	cls := sv.Outcome(func() {
		switch api {
		case 0:
			res, err = Eval(src, host)
		case 1:
			var c Callable
			c, err = NewExpr().Compile(src, host)
			if err == nil {
				res, err = c(host)
			}
		default:
			res, _, err = Debug(src, host)
		}
	})
	sv.Assert("no-panic-escapes-the-public-api", cls == "ok")
	if cls == "ok" {
		sv.Assert("a-value-or-an-error", (err != nil) != (res != nil))
	}
	sv.Reach("called")
}
