//go:build verif

package yae

import (
	"github.com/goghcrow/yae/fun"
	"github.com/goghcrow/yae/parser/oper"
	"github.com/goghcrow/yae/types"
	"github.com/goghcrow/yae/val"
	"github.com/goghcrow/yae/zzverif/hx"
	"github.com/goghcrow/yae/zzverif/sv"
)

// Harnesses that drive the public facade through configurations and
// sequences of calls: engines built without the built-in tables, one Expr
// compiling several times, environments shared between engines.

var facadeSugar = []string{"a > 1 ? 10 : 20", "a + b * 2", "(a)", "-a", "xs.len() + a", "(a + b).max(1)", "!(a > b) || a == b", "[a, b][0] - (b)"}

// H10_facade: sugar means the call it stands for on every engine
// configuration - the default engine, and one built with UseBuiltIn(false)
// on which the same operators and functions were registered by hand.
func H10_facade() {
	src := facadeSugar[sv.Choice("prog", len(facadeSugar))]
	b := sv.Choice("backend", hx.NBackends)
	def := exprWith(b)
	bare := exprWith(b).UseBuiltIn(false).RegisterOperator(oper.BuiltIn()...).RegisterFun(fun.BuiltIn()...)
	tenv := types.NewEnv()
	tenv.Put("a", types.Num)
	tenv.Put("b", types.Num)
	tenv.Put("xs", types.List(types.Num))
	a, bb := sv.Float64("a"), sv.Float64("b")
	mk := func() *val.Env {
		venv := val.NewEnv()
		venv.Put("a", val.Num(a))
		venv.Put("b", val.Num(bb))
		l := val.List(types.List(types.Num).List(), 1).List()
		l.V[0] = val.Num(7)
		venv.Put("xs", l.Vl())
		return venv
	}
	var r1, r2 *val.Val
	var e1, e2 error
	cls := sv.Outcome(func() {
		var c Callable
		if c, e1 = def.Compile(src, tenv); e1 == nil {
			r1, e1 = c(mk())
		}
		if c, e2 = bare.Compile(src, tenv); e2 == nil {
			r2, e2 = c(mk())
		}
	})
	sv.Assert("no-panic", cls == "ok")
	sv.Assert("default-engine-evaluates", e1 == nil && r1 != nil)
	sv.Assert("hand-built-engine-gives-sugar-the-same-meaning", e2 == nil && r2 != nil && hx.RefSameVal(r1, r2))
	sv.Reach("compared")
}

type facadeHost struct {
	N   float64     `yae:"n"`
	P   *float64    `yae:"p"`
	Ext interface{} `yae:"ext"`
}

func facadeMkHost(kind int, name string) facadeHost {
	h := facadeHost{N: sv.Float64(name + ".n")}
	switch kind {
	case 0:
		f := 2.5
		h.P, h.Ext = &f, 41
	case 1:
		h.Ext = "x" // p absent
	default:
		f := 1.5
		h.P, h.Ext = &f, "y"
	}
	return h
}

// what each program does on each kind of host value: its result rendered,
// or "" when it is ill typed there
var facadeHostProgs = []struct {
	src  string
	want [3]string
}{
	{"string(ext)", [3]string{"41", "x", "y"}},
	{"ext + 1", [3]string{"42", "", ""}},
	{"ext + \"!\"", [3]string{"", "x!", "y!"}},
	{"p + 1", [3]string{"3.5", "", "2.5"}},
	{"get(p, 9)", [3]string{"", "9", ""}},
}

// H05_host: one Expr compiles the same source against several host values of
// one Go struct type whose yae types differ (an interface field holding a
// num or a str, a pointer nil or set): every compilation is accepted or
// rejected by the types of the value it is given, and an accepted one
// evaluates on that value. The same through Eval and through Debug, twice.
func H05_host() { hostSequence(sv.Choice("api", 2)) }

// H19_facade: yae.Debug called twice in one process with the same source and
// environments of one Go type whose variables have different types: each call
// returns what normal evaluation of that environment returns.
func H19_facade() { hostSequence(2) }

func hostSequence(api int) {
	p := facadeHostProgs[sv.Choice("prog", len(facadeHostProgs))]
	e := exprWith(sv.Choice("backend", hx.NBackends))
	for step := 0; step < 2; step++ {
		kind := sv.Choice("host"+hx.Itoa(step), 3)
		h := facadeMkHost(kind, "h"+hx.Itoa(step))
		var r *val.Val
		var err error
		cls := sv.Outcome(func() {
			switch api {
			case 0:
				var c Callable
				if c, err = e.Compile(p.src, h); err == nil {
					r, err = c(h)
				}
			case 1:
				r, err = Eval(p.src, h)
			default:
				r, _, err = Debug(p.src, h)
			}
		})
		sv.Assert("no-panic", cls == "ok")
		if cls != "ok" {
			return
		}
		if p.want[kind] == "" {
			sv.Reach("ill-typed-here")
			sv.Assert("ill-typed-for-this-value-is-rejected", err != nil)
		} else {
			sv.Reach("well-typed-here")
			ok := err == nil && r != nil
			sv.Assert("well-typed-for-this-value-is-accepted-and-evaluated", ok)
			if ok {
				sv.Assert("result-is-that-of-this-value", sv.StrEq(r.String(), quoteIfStr(r, p.want[kind])))
			}
		}
	}
}

func quoteIfStr(r *val.Val, s string) string {
	if r.Type.Kind == types.KStr {
		return val.Str(s).String()
	}
	return s
}

// H01_recompile: a caller-owned *types.Env is mutable. Compiling a source
// against it, re-declaring a variable in it, and compiling the same source
// against the same object again must type the program by the new
// declaration: the result has the type the second compilation infers.
func H01_recompile() {
	srcs := []string{"[x]", "{v: x}", "x", "[x, x][0]", "if(c, x, x)", "[\"k\": x]"}
	src := srcs[sv.Choice("prog", len(srcs))]
	n := 4
	t1 := hx.Catalogue(sv.Choice("T1", n))
	t2 := hx.Catalogue(sv.Choice("T2", n))
	e := exprWith(sv.Choice("backend", hx.NBackends))
	tenv := types.NewEnv()
	tenv.Put("x", t1)
	tenv.Put("c", types.Bool)
	_, err := e.Compile(src, tenv)
	sv.Assert("first-compilation", err == nil)
	tenv.Put("x", t2) // re-declared in place
	c2, err := e.Compile(src, tenv)
	sv.Assert("second-compilation", err == nil)
	if err != nil {
		return
	}
	hx.NumPool = []float64{1, 2.5}
	hx.ConcreteTimes = true
	xv := hx.AnyVal(t2, "x")
	hx.NumPool = nil
	venv := val.NewEnv()
	venv.Put("x", xv)
	venv.Put("c", val.True)
	r, err := c2(venv)
	sv.Assert("evaluates-on-an-environment-of-the-new-declaration", err == nil && r != nil)
	if err != nil || r == nil {
		return
	}
	var want *types.Type
	switch src {
	case "[x]":
		want = types.List(t2)
	case "{v: x}":
		want = hx.ObjT([]string{"v"}, []*types.Type{t2})
	case "[\"k\": x]":
		want = types.Map(types.Str, t2)
	default:
		want = t2
	}
	sv.Assert("result-has-the-type-of-the-second-compilation", hx.RefWellTyped(r, want) == "")
	sv.Reach("recompiled")
}

// H13_engines: one *types.Env and one *val.Env used by two engines whose
// function tables differ (the second has an extra host function and registers
// the overloads of another one in the opposite order): each engine resolves
// calls against its own tables, in either order of use.
func H13_engines() {
	b := sv.Choice("backend", hx.NBackends)
	double := val.Fun(types.Fun("double", []*types.Type{types.Num}, types.Num), func(v ...*val.Val) *val.Val { return val.Num(v[0].Num().V * 2) })
	a := types.TyVar("a")
	kindAny := val.Fun(types.Fun("kind", []*types.Type{a}, types.Str), func(v ...*val.Val) *val.Val { return val.Str("any") })
	kindList := val.Fun(types.Fun("kind", []*types.Type{types.List(a)}, types.Str), func(v ...*val.Val) *val.Val { return val.Str("list") })
	e1 := exprWith(b).RegisterFun(kindAny, kindList)
	e2 := exprWith(b).RegisterFun(double, kindList, kindAny)
	tenv := types.NewEnv()
	tenv.Put("n", types.Num)
	tenv.Put("xs", types.List(types.Num))
	n := sv.Float64("n")
	venv := val.NewEnv()
	venv.Put("n", val.Num(n))
	venv.Put("xs", val.List(types.List(types.Num).List(), 0))
	type use struct {
		e    *Expr
		src  string
		want string // rendered result, "" = must be rejected
	}
	uses := []use{{e1, "kind(xs)", "\"any\""}, {e2, "kind(xs)", "\"list\""}, {e1, "double(n) + 1", ""}, {e2, "string(double(1) + 1)", "\"3\""}, {e1, "kind(n)", "\"any\""}}
	order := sv.Choice("order", 4)
	seq := [][]int{{0, 1, 2, 3}, {1, 0, 3, 2}, {3, 0, 1, 4}, {2, 3, 4, 1}}[order]
	for _, k := range seq {
		u := uses[k]
		var r *val.Val
		var err error
		cls := sv.Outcome(func() {
			var c Callable
			if c, err = u.e.Compile(u.src, tenv); err == nil { // the same environment objects every time
				r, err = c(venv)
			}
		})
		sv.Assert("no-panic", cls == "ok")
		if u.want == "" {
			sv.Assert("function-of-the-other-engine-is-unknown-here", err != nil)
		} else {
			sv.Assert("each-engine-resolves-against-its-own-tables", err == nil && r != nil && sv.StrEq(r.String(), u.want))
		}
	}
	sv.Reach("sequence-done")
}
