//go:build verif

package yae

import (
	"time"

	"github.com/goghcrow/yae/types"
	"github.com/goghcrow/yae/val"
	"github.com/goghcrow/yae/zzverif/hx"
	"github.com/goghcrow/yae/zzverif/sv"
)

var c16T0 = time.Unix(1700000000, 0)

type c16Rec struct {
	Score *float64 `yae:"score"`
	Bonus *float64 `yae:"bonus"`
}

type c16Env struct {
	When *time.Time       `yae:"when,maybe"`
	T0   time.Time        `yae:"t0"`
	R c16Rec            `yae:"r"`
	M map[string]c16Rec `yae:"m"`
	N float64           `yae:"n"`
}

// H16_host: host data with nil pointers, through the public API. Absence
// never reaches an operator: whenever an invocation is accepted and succeeds,
// its result is the one computed from present payloads and defaults; a value
// that is absent where the compiled expression requires the payload makes
// the invocation fail with an error (at compile time, at the environment
// check, or as inconsistent data) - it is never silently read as a number.
// One Callable is compiled against one sample and invoked on two other
// values of the same Go type (iteration orders of host maps are explored in
// H15_mixed; here maps are visited in insertion order).
func H16_host() {
	f := func(name string, present bool) *float64 {
		if !present {
			return nil
		}
		x := 2.5
		if name == "env0.r.score" || name == "env1.a.score" {
			x = sv.Float64(name) // the payloads are arbitrary; one symbolic one per invocation keeps paths few
		}
		return &x
	}
	// which pointers are set: 0 all; 1 all but r.bonus; 2 all but m["b"].score
	// (the map's entries then convert to different types: inconsistent data,
	// used for invocations only); 3 none
	mk := func(name string, patterns int) (c16Env, [4]bool) {
		k := sv.Choice(name+".present", patterns)
		if patterns == 3 && k == 2 {
			k = 3
		}
		p := [][4]bool{{true, true, true, true}, {true, false, true, true}, {true, true, false, true}, {false, false, false, false}}[k]
		e := c16Env{N: 1, T0: c16T0}
		if p[1] {
			t := c16T0.Add(time.Hour)
			e.When = &t
		}
		e.R = c16Rec{f(name+".r.score", p[0]), f(name+".r.bonus", p[1])}
		aPresent := k != 3
		e.M = map[string]c16Rec{
			"a": {f(name+".a.score", aPresent), f(name+".a.bonus", aPresent)},
			"b": {f(name+".b.score", p[2]), f(name+".b.bonus", p[3])},
		}
		return e, p
	}
	type prog struct {
		src   string
		needs []int // indices of parts whose payload the program consumes without a default
		opts  []int // indices of (untagged pointer) parts the program reads through get(part, default): an optional only while absent
		want  func(e c16Env) float64
	}
	d := func(p *float64, def float64) float64 {
		if p == nil {
			return def
		}
		return *p
	}
	progs := []prog{
		{"r.score + r.bonus", []int{0, 1}, nil, func(e c16Env) float64 { return *e.R.Score + *e.R.Bonus }},
		{"get(r.score, 0) + get(r.bonus, 10)", nil, []int{0, 1}, func(e c16Env) float64 { return d(e.R.Score, 0) + d(e.R.Bonus, 10) }},
		{"m[\"b\"].score + n", []int{2}, nil, func(e c16Env) float64 { return *e.M["b"].Score + 1 }},
		{"get(m[\"b\"].bonus, 5) + n", nil, []int{3}, func(e c16Env) float64 { return d(e.M["b"].Bonus, 5) + 1 }},
		{"r.score * 2", []int{0}, nil, func(e c16Env) float64 { return *e.R.Score * 2 }},
		// an optional instant: absent in the sample and later present, or the other way round, it is a maybe[time] throughout
		{"if(get(when, t0) == t0, n, n + 1)", nil, nil, func(e c16Env) float64 {
			if e.When == nil || e.When.Equal(c16T0) {
				return 1
			}
			return 2
		}},
	}
	p := progs[sv.Choice("prog", len(progs))]
	ex := exprWith(sv.Choice("backend", hx.NBackends))
	sample, samplePresent := mk("sample", 3)
	var c Callable
	var err error
	cls := sv.Outcome(func() { c, err = ex.Compile(p.src, sample) })
	sv.Assert("compile-does-not-panic", cls == "ok")
	// against a sample, a program compiles exactly when every part it feeds
	// to an operator is present there (a plain num) and every untagged pointer
	// it reads through get(part, default) is absent there (an optional); a
	// field declared optional is an optional either way
	compiles := true
	for _, i := range p.needs {
		if !samplePresent[i] {
			compiles = false
		}
	}
	for _, i := range p.opts {
		if samplePresent[i] {
			compiles = false
		}
	}
	sv.Assert("accepted-iff-no-absent-payload-is-consumed-without-a-default", cls != "ok" || (err == nil) == compiles)
	if cls != "ok" || err != nil {
		sv.Reach("rejected-at-compile-time")
		return
	}
	for k := 0; k < 2; k++ {
		env, present := mk("env"+hx.Itoa(k), 4)
		var r *val.Val
		cls := sv.Outcome(func() { r, err = c(env) })
		sv.Assert("callable-does-not-panic", cls == "ok")
		if cls != "ok" {
			break
		}
		consumesAbsent := false
		for _, i := range p.needs {
			if !present[i] {
				consumesAbsent = true
			}
		}
		if consumesAbsent {
			sv.Reach("payload-absent")
			sv.Assert("absent-payload-never-reaches-an-operator", err != nil)
		} else if err == nil {
			sv.Reach("evaluated")
			sv.Assert("result-computed-from-payloads-and-defaults", r != nil && r.Type == types.Num && sv.Same(r.Num().V, p.want(env)))
		} else {
			sv.Reach("environment-of-another-type")
		}
	}
}
