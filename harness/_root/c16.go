//go:build verif

package yae

import (
	"time"

	"github.com/goghcrow/yae/types"
	"github.com/goghcrow/yae/val"
	"github.com/goghcrow/yae/zzverif/hx"
	"github.com/goghcrow/yae/zzverif/sv"
)

var c16T0 = time.Unix(1700000000, 0)

type c16Rec struct {
	Score *float64 `yae:"score"`
	Bonus *float64 `yae:"bonus"`
}

type c16Env struct {
	When *time.Time       `yae:"when,maybe"`
	T0   time.Time        `yae:"t0"`
	R c16Rec            `yae:"r"`
	M map[string]c16Rec `yae:"m"`
	N float64           `yae:"n"`
}

// H16_host: host data with nil pointers, through the public API. Absence
// never reaches an operator: whenever an invocation is accepted and succeeds,
// its result is the one computed from present payloads and defaults; a value
// that is absent where the compiled expression requires the payload makes
// the invocation fail with an error (at compile time, at the environment
// check, or as inconsistent data) - it is never silently read as a number.
// One Callable is compiled against one sample and invoked on two other
// values of the same Go type (iteration orders of host maps are explored in
// H15_mixed; here maps are visited in insertion order).
func H16_host() {
	f := func(name string, present bool) *float64 {
		if !present {
			return nil
		}
		x := 2.5
		if name == "env0.r.score" || name == "env1.a.score" {
			x = sv.Float64(name) // the payloads are arbitrary; one symbolic one per invocation keeps paths few
		}
		return &x
	}
	// which pointers are set: 0 all; 1 all but r.bonus; 2 all but m["b"].score
	// (the map's entries then convert to different types: inconsistent data,
	// used for invocations only); 3 none
	mk := func(name string, patterns int) (c16Env, [4]bool) {
		k := sv.Choice(name+".present", patterns)
		if patterns == 3 && k == 2 {
			k = 3
		}
		p := [][4]bool{{true, true, true, true}, {true, false, true, true}, {true, true, false, true}, {false, false, false, false}}[k]
		e := c16Env{N: 1, T0: c16T0}
		if p[1] {
			t := c16T0.Add(time.Hour)
			e.When = &t
		}
		e.R = c16Rec{f(name+".r.score", p[0]), f(name+".r.bonus", p[1])}
		aPresent := k != 3
		e.M = map[string]c16Rec{
			"a": {f(name+".a.score", aPresent), f(name+".a.bonus", aPresent)},
			"b": {f(name+".b.score", p[2]), f(name+".b.bonus", p[3])},
		}
		return e, p
	}
	type prog struct {
		src   string
		needs []int // indices of parts whose payload the program consumes without a default
		opts  []int // indices of (untagged pointer) parts the program reads through get(part, default): an optional only while absent
		want  func(e c16Env) float64
	}
	d := func(p *float64, def float64) float64 {
		if p == nil {
			return def
		}
		return *p
	}
	progs := []prog{
		{"r.score + r.bonus", []int{0, 1}, nil, func(e c16Env) float64 { return *e.R.Score + *e.R.Bonus }},
		{"get(r.score, 0) + get(r.bonus, 10)", nil, []int{0, 1}, func(e c16Env) float64 { return d(e.R.Score, 0) + d(e.R.Bonus, 10) }},
		{"m[\"b\"].score + n", []int{2}, nil, func(e c16Env) float64 { return *e.M["b"].Score + 1 }},
		{"get(m[\"b\"].bonus, 5) + n", nil, []int{3}, func(e c16Env) float64 { return d(e.M["b"].Bonus, 5) + 1 }},
		{"r.score * 2", []int{0}, nil, func(e c16Env) float64 { return *e.R.Score * 2 }},
		// an optional instant: absent in the sample and later present, or the other way round, it is a maybe[time] throughout
		{"if(get(when, t0) == t0, n, n + 1)", nil, nil, func(e c16Env) float64 {
			if e.When == nil || e.When.Equal(c16T0) {
				return 1
			}
			return 2
		}},
	}
	p := progs[sv.Choice("prog", len(progs))]
	ex := exprWith(sv.Choice("backend", hx.NBackends))
	sample, samplePresent := mk("sample", 3)
	var c Callable
	var err error
	cls := sv.Outcome(func() { c, err = ex.Compile(p.src, sample) })
	sv.Assert("compile-does-not-panic", cls == "ok")
	// against a sample, a program compiles exactly when every part it feeds
	// to an operator is present there (a plain num) and every untagged pointer
	// it reads through get(part, default) is absent there (an optional); a
	// field declared optional is an optional either way
	compiles := true
	for _, i := range p.needs {
		if !samplePresent[i] {
			compiles = false
		}
	}
	for _, i := range p.opts {
		if samplePresent[i] {
			compiles = false
		}
	}
	sv.Assert("accepted-iff-no-absent-payload-is-consumed-without-a-default", cls != "ok" || (err == nil) == compiles)
	if cls != "ok" || err != nil {
		sv.Reach("rejected-at-compile-time")
		return
	}
	for k := 0; k < 2; k++ {
		env, present := mk("env"+hx.Itoa(k), 4)
		var r *val.Val
		cls := sv.Outcome(func() { r, err = c(env) })
		sv.Assert("callable-does-not-panic", cls == "ok")
		if cls != "ok" {
			break
		}
		consumesAbsent := false
		for _, i := range p.needs {
			if !present[i] {
				consumesAbsent = true
			}
		}
		if consumesAbsent {
			sv.Reach("payload-absent")
			sv.Assert("absent-payload-never-reaches-an-operator", err != nil)
		} else if err == nil {
			sv.Reach("evaluated")
			sv.Assert("result-computed-from-payloads-and-defaults", r != nil && r.Type == types.Num && sv.Same(r.Num().V, p.want(env)))
		} else {
			sv.Reach("environment-of-another-type")
		}
	}
}

// a host record whose optional parts are declared with the `maybe` tag: two
// of a kind that cannot be nil (a present payload whatever its value - zero,
// false and "" included), one pointer
type c16Acct struct {
	Balance float64  `yae:"balance,maybe"`
	Active  bool     `yae:"active,maybe"`
	Nick    string   `yae:"nick,maybe"`
	Limit   *float64 `yae:"limit,maybe"`
}

type c16Accts struct {
	Acct c16Acct   `yae:"acct"`
	Old  []c16Acct `yae:"old"`
	New  []c16Acct `yae:"new"`
}

// H16_values: `get(optional, default)` is the payload when one is present and
// the default otherwise - for a declared-optional field of a kind that cannot
// be nil the payload is always present, whatever its value (0, false and ""
// are payloads); comparing containers that hold optionals is an ordinary
// accepted expression over host data with nil pointers: it never fails, and
// an absent optional equals only an absent one.
func H16_values() {
	var lim *float64
	if sv.Bool("limit.present") {
		x := sv.Float64("limit")
		lim = &x
	}
	a := c16Acct{Balance: sv.Float64("balance"), Active: sv.Bool("active"), Nick: []string{"", "bo"}[sv.Choice("nick", 2)], Limit: lim}
	other := a
	switch sv.Choice("other", 3) {
	case 1: // the other record's optional pointer is the other way round
		if lim == nil {
			y := 2.5
			other.Limit = &y
		} else {
			other.Limit = nil
		}
	case 2:
		other.Nick = "zed"
	}
	env := c16Accts{Acct: a, Old: []c16Acct{a}, New: []c16Acct{other}}
	sameLimit := (a.Limit == nil) == (other.Limit == nil)
	type prog struct {
		src  string
		kind int // 0 num, 1 bool, 2 str
		n    func() float64
		b    func() bool
		s    func() string
	}
	progs := []prog{
		{src: "get(acct.balance, 100)", kind: 0, n: func() float64 { return a.Balance }},
		{src: "get(acct.active, true)", kind: 1, b: func() bool { return a.Active }},
		{src: "get(acct.nick, \"anon\")", kind: 2, s: func() string { return a.Nick }},
		{src: "get(acct.limit, 7)", kind: 0, n: func() float64 {
			if a.Limit == nil {
				return 7
			}
			return *a.Limit
		}},
		{src: "get(old[0].balance, 100) + get(new[0].balance, 1)", kind: 0, n: func() float64 { return a.Balance + other.Balance }},
		{src: "old == old", kind: 1, b: func() bool { return true }},
		{src: "[acct.limit] != [new[0].limit]", kind: 1, b: func() bool { return !sameLimit }},
		{src: "[old[0].limit] == [new[0].limit]", kind: 1, b: func() bool { return sameLimit }},
	}
	p := progs[sv.Choice("prog", len(progs))]
	if p.src == "old == old" || hasLimitCmp(p.src) {
		// equality of numbers is a tolerance (C04); keep the payloads apart from it
		sv.Assume(a.Balance > -1e9 && a.Balance < 1e9)
		if a.Limit != nil {
			sv.Assume(*a.Limit > -1e9 && *a.Limit < 1e9)
		}
	}
	ex := exprWith(sv.Choice("backend", hx.NBackends))
	var c Callable
	var err error
	var r *val.Val
	cls := sv.Outcome(func() { c, err = ex.Compile(p.src, env) })
	sv.Assert("accepted", cls == "ok" && err == nil)
	if cls != "ok" || err != nil {
		return
	}
	cls = sv.Outcome(func() { r, err = c(env) })
	sv.Assert("absence-never-makes-an-accepted-expression-fail", cls == "ok" && err == nil)
	if cls != "ok" || err != nil {
		return
	}
	switch p.kind {
	case 0:
		sv.Assert("payload-when-present-default-otherwise", r != nil && r.Type == types.Num && sv.Same(r.Num().V, p.n()))
	case 1:
		sv.Assert("payload-when-present-default-otherwise", r != nil && r.Type == types.Bool && r.Bool().V == p.b())
	case 2:
		sv.Assert("payload-when-present-default-otherwise", r != nil && r.Type == types.Str && r.Str().V == p.s())
	}
	sv.Reach("evaluated")
}

func hasLimitCmp(s string) bool {
	for i := 0; i+5 <= len(s); i++ {
		if s[i:i+5] == "limit" {
			return true
		}
	}
	return false
}
