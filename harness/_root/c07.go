//go:build verif

package yae

import (
	"github.com/goghcrow/yae/types"
	"github.com/goghcrow/yae/val"
	"github.com/goghcrow/yae/zzverif/hx"
	"github.com/goghcrow/yae/zzverif/sv"
)

// H07_envcheck: a compiled expression runs exactly on environments whose
// bindings for the compile-time names have equal types (field order and
// extra names are irrelevant); otherwise it returns an error and evaluates
// nothing.
func H07_envcheck() {
	n := hx.CatalogueSize()
	kx := sv.Choice("Tx", n)
	tx := hx.Catalogue(kx)
	if tx.Kind == types.KList && tx.List().El.Kind == types.KBot {
		tx = types.List(types.Num) // empty-container types are not environment types
	}
	e := exprWith(sv.Choice("backend", hx.NBackends))
	probed := 0
	a := types.TyVar("a")
	e.RegisterFun(val.Fun(types.Fun("probe", []*types.Type{a}, a), func(args ...*val.Val) *val.Val {
		probed++
		return args[0]
	}))
	tenv := types.NewEnv()
	tenv.Put("x", tx)
	tenv.Put("y", types.Num)
	c, err := e.Compile("probe(x)", tenv)
	sv.Assert("compiles", err == nil)

	// the run-time environment: a selector-chosen mutation of a conforming one
	hx.ConcreteTimes = true
	hx.NumPool = []float64{1, 2.5}
	hx.MaxLenQuick = 2
	mut := sv.Choice("mutation", 7)
	venv := val.NewEnv()
	var xval *val.Val
	conforms := true
	switch mut {
	case 0: // exactly the compile-time type
		xval = hx.AnyVal(tx, "x")
	case 1: // equal type, object fields permuted at every depth
		xval = hx.AnyVal(hx.Permuted(tx, "perm"), "x")
	case 2: // a value of another catalogue type
		other := hx.Catalogue((kx + 1 + sv.Choice("other", n-1)) % n)
		xval = hx.AnyVal(other, "x")
		conforms = hx.RefTypeEq(tx, other)
	case 3: // x missing
		conforms = false
	case 4: // y missing (not used by the program, but known at compile time)
		xval = hx.AnyVal(tx, "x")
		conforms = false
	case 5: // extra names
		xval = hx.AnyVal(tx, "x")
		venv.Put("z", val.Str("extra"))
		venv.Put("probe", val.Num(1))
	case 6: // y of another type
		xval = hx.AnyVal(tx, "x")
		conforms = false
	}
	hx.NumPool = nil
	if xval != nil {
		venv.Put("x", xval)
	}
	switch mut {
	case 4:
	case 6:
		venv.Put("y", val.Str("not a number"))
	default:
		venv.Put("y", val.Num(sv.Float64("y")))
	}
	var r *val.Val
	cls := sv.Outcome(func() { r, err = c(venv) })
	sv.Assert("callable-does-not-panic", cls == "ok")
	if cls != "ok" {
		return
	}
	if conforms {
		sv.Reach("conforming")
		sv.Assert("conforming-environment-accepted", err == nil)
		sv.Assert("evaluates-normally", err != nil || (r == xval && probed == 1))
	} else {
		sv.Reach("mismatching")
		sv.Assert("mismatching-environment-rejected", err != nil)
		sv.Assert("nothing-evaluated", probed == 0)
	}
}
