//go:build verif

package yae

import (
	"github.com/goghcrow/yae/types"
	"github.com/goghcrow/yae/val"
	"github.com/goghcrow/yae/zzverif/hx"
	"github.com/goghcrow/yae/zzverif/sv"
)

// H07_envcheck: a compiled expression runs exactly on environments whose
// bindings for the compile-time names have equal types (field order and
// extra names are irrelevant); otherwise it returns an error and evaluates
// nothing.
func H07_envcheck() {
	n := hx.CatalogueSize()
	kx := sv.Choice("Tx", n)
	tx := hx.Catalogue(kx)
	if tx.Kind == types.KList && tx.List().El.Kind == types.KBot {
		tx = types.List(types.Num) // empty-container types are not environment types
	}
	e := exprWith(sv.Choice("backend", hx.NBackends))
	probed := 0
	a := types.TyVar("a")
	e.RegisterFun(val.Fun(types.Fun("probe", []*types.Type{a}, a), func(args ...*val.Val) *val.Val {
		probed++
		return args[0]
	}))
	// mutation 9 compiles against a hand-built type in which one type object
	// stands at two positions: {from: Tx, to: Tx}
	mut := sv.Choice("mutation", 10)
	xt := tx
	if mut == 9 {
		xt = types.Obj([]types.Field{{Name: "from", Val: tx}, {Name: "to", Val: tx}})
	}
	tenv := types.NewEnv()
	tenv.Put("x", xt)
	tenv.Put("y", types.Num)
	c, err := e.Compile("probe(x)", tenv)
	sv.Assert("compiles", err == nil)

	// the run-time environment: a selector-chosen mutation of a conforming one
	hx.ConcreteTimes = true
	hx.NumPool = []float64{1, 2.5}
	hx.MaxLenQuick = 2
	venv := val.NewEnv()
	var xval *val.Val
	conforms := true
	switch mut {
	case 0: // exactly the compile-time type
		xval = hx.AnyVal(tx, "x")
	case 1: // equal type, object fields permuted at every depth
		xval = hx.AnyVal(hx.Permuted(tx, "perm"), "x")
	case 2: // a value of another catalogue type
		other := hx.Catalogue((kx + 1 + sv.Choice("other", n-1)) % n)
		xval = hx.AnyVal(other, "x")
		conforms = hx.RefTypeEq(tx, other)
	case 3: // x missing
		conforms = false
	case 4: // y missing (not used by the program, but known at compile time)
		xval = hx.AnyVal(tx, "x")
		conforms = false
	case 5: // extra names
		xval = hx.AnyVal(tx, "x")
		venv.Put("z", val.Str("extra"))
		venv.Put("probe", val.Num(1))
	case 6: // y of another type
		xval = hx.AnyVal(tx, "x")
		conforms = false
	case 7: // x missing, and as many extra names as compile-time names (a misspelt key)
		venv.Put("X", hx.AnyVal(tx, "x"))
		venv.Put("z", val.Str("extra"))
		conforms = false
	case 8: // y missing, extra names in its place
		xval = hx.AnyVal(tx, "x")
		venv.Put("Y", val.Num(1))
		venv.Put("yy", val.Num(2))
		conforms = false
	case 9: // the first position conforms, the second holds a value of another catalogue type
		nOther := n - 1
		if nOther > 6 {
			nOther = 6 // six neighbouring catalogue types are enough: what matters is that the second position differs
		}
		other := hx.Catalogue((kx + 1 + sv.Choice("other", nOther)) % n)
		ot := types.Obj([]types.Field{{Name: "from", Val: hx.Permuted(tx, "perm")}, {Name: "to", Val: other}})
		xval = val.Obj(ot.Obj())
		xval.Obj().V[0] = hx.AnyVal(tx, "x.from")
		xval.Obj().V[1] = hx.AnyVal(other, "x.to")
		conforms = hx.RefTypeEq(tx, other)
	}
	hx.NumPool = nil
	if xval != nil {
		venv.Put("x", xval)
	}
	switch mut {
	case 4, 8:
	case 6:
		venv.Put("y", val.Str("not a number"))
	default:
		venv.Put("y", val.Num(sv.Float64("y")))
	}
	var r *val.Val
	cls := sv.Outcome(func() { r, err = c(venv) })
	sv.Assert("callable-does-not-panic", cls == "ok")
	if cls != "ok" {
		return
	}
	if conforms {
		sv.Reach("conforming")
		sv.Assert("conforming-environment-accepted", err == nil)
		sv.Assert("evaluates-normally", err != nil || (r == xval && probed == 1))
	} else {
		sv.Reach("mismatching")
		sv.Assert("mismatching-environment-rejected", err != nil)
		sv.Assert("nothing-evaluated", probed == 0)
	}
}

// a host environment whose yae type depends on its values: a nil pointer
// field is an absent optional (maybe[num]), a non-nil one a num; an
// interface field has the type of what it holds
type c07Host struct {
	N float64     `yae:"n"`
	P *float64    `yae:"p"`
	I interface{} `yae:"i"`
}

func c07MakeHost(shape int, name string) c07Host {
	h := c07Host{N: sv.Float64(name + ".n")}
	if shape%2 == 1 {
		f := sv.Float64(name + ".p")
		h.P = &f
	}
	switch shape / 2 {
	case 0:
		h.I = sv.Float64(name + ".i")
	case 1:
		h.I = "text"
	default:
		h.I = true
	}
	return h
}

// H07_host: one Callable compiled against a host struct and invoked twice
// with other values of the same Go type. Each invocation is judged on its
// own: accepted and evaluated iff that value's bindings have the compile-time
// types, otherwise an error and nothing evaluated - whatever the Callable
// has seen before (an accepted call must not vouch for the next one).
func H07_host() {
	e := exprWith(sv.Choice("backend", hx.NBackends))
	probed := 0
	a := types.TyVar("a")
	e.RegisterFun(val.Fun(types.Fun("probe", []*types.Type{a}, a), func(args ...*val.Val) *val.Val {
		probed++
		return args[0]
	}))
	s0 := sv.Choice("compiled-against", 6)
	sample := c07MakeHost(s0, "sample")
	byPtr := sv.Choice("by-pointer", 2) == 1
	var c Callable
	var err error
	cls := sv.Outcome(func() {
		if byPtr {
			c, err = e.Compile("probe(n)", &sample)
		} else {
			c, err = e.Compile("probe(n)", sample)
		}
	})
	sv.Assert("compile-does-not-panic", cls == "ok")
	sv.Assert("compiles", err == nil)
	if cls != "ok" || err != nil {
		return
	}
	for k := 0; k < 2; k++ {
		sk := sv.Choice("call"+string(rune('1'+k)), 6)
		h := c07MakeHost(sk, "env"+string(rune('1'+k)))
		before := probed
		var r *val.Val
		cls := sv.Outcome(func() {
			if byPtr {
				r, err = c(&h)
			} else {
				r, err = c(h)
			}
		})
		sv.Assert("callable-does-not-panic", cls == "ok")
		if cls != "ok" {
			return
		}
		if sk == s0 {
			sv.Reach("conforming")
			sv.Assert("conforming-environment-accepted", err == nil)
			sv.Assert("evaluates-normally", err != nil || (r != nil && r.Type == types.Num && sv.Same(r.Num().V, h.N) && probed == before+1))
		} else {
			sv.Reach("mismatching")
			sv.Assert("mismatching-environment-rejected", err != nil)
			sv.Assert("nothing-evaluated", probed == before)
		}
	}
}

type c07In struct {
	X interface{} `yae:"x"`
}
type c07MapHost struct {
	N float64          `yae:"n"`
	M map[string]c07In `yae:"m"`
}

// H07_hostmap: a binding that is a Go map of structs whose converted type
// depends on what an interface field holds. Entries that convert to different
// types are inconsistent data: the invocation returns an error and evaluates
// nothing - also when the entry visited first happens to have the
// compile-time type (every iteration order is explored).
func H07_hostmap() {
	e := exprWith(sv.Choice("backend", hx.NBackends))
	probed := 0
	a := types.TyVar("a")
	e.RegisterFun(val.Fun(types.Fun("probe", []*types.Type{a}, a), func(args ...*val.Val) *val.Val {
		probed++
		return args[0]
	}))
	mk := func(kind int, name string) c07MapHost {
		h := c07MapHost{N: sv.Float64(name + ".n"), M: map[string]c07In{}}
		switch kind {
		case 0: // every entry holds a number
			h.M["a"], h.M["b"] = c07In{1.5}, c07In{2}
		case 1: // the first entry conforms, the second holds a string
			h.M["a"], h.M["b"] = c07In{1.5}, c07In{"s"}
		case 2: // the other way round
			h.M["a"], h.M["b"] = c07In{"s"}, c07In{1.5}
		default: // every entry holds a string: consistent, but another type
			h.M["a"], h.M["b"] = c07In{"s"}, c07In{"t"}
		}
		return h
	}
	sample := mk(0, "sample")
	c, err := e.Compile("probe(n) + len(m)", sample)
	sv.Assert("compiles", err == nil)
	if err != nil {
		return
	}
	for k := 0; k < 2; k++ {
		kind := sv.Choice("call"+hx.Itoa(k), 4)
		h := mk(kind, "env"+hx.Itoa(k))
		// natively Go's own random iteration order has to be sampled
		for rep := 0; rep < sv.Repeats(40); rep++ {
			before := probed
			var r *val.Val
			sv.MapOrder(1)
			cls := sv.Outcome(func() { r, err = c(h) })
			sv.MapOrder(0)
			sv.Assert("callable-does-not-panic", cls == "ok")
			if cls != "ok" {
				return
			}
			if kind == 0 {
				sv.Reach("conforming")
				sv.Assert("conforming-environment-accepted", err == nil)
				sv.Assert("evaluates-normally", err != nil || (r != nil && r.Type == types.Num && sv.Same(r.Num().V, h.N+2) && probed == before+1))
			} else {
				sv.Reach("mismatching")
				sv.Assert("mismatching-environment-rejected", err != nil)
				sv.Assert("nothing-evaluated", probed == before)
			}
		}
	}
}
