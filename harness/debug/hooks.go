//go:build verif

package debug

import "github.com/goghcrow/yae/val"

// ZZEntry is a read-only view of one recorded (value, column) pair.
type ZZEntry struct {
	V   *val.Val
	Col int
}

func (r *Record) ZZEntries() []ZZEntry {
	out := make([]ZZEntry, len(r.vs))
	for i, v := range r.vs {
		out[i] = ZZEntry{v.v, v.col}
	}
	return out
}
