//go:build verif

package parser

import (
	"github.com/goghcrow/yae/parser/ast"
	"github.com/goghcrow/yae/parser/lexer"
	"github.com/goghcrow/yae/parser/oper"
	"github.com/goghcrow/yae/zzverif/sv"
)

func H00_bp() {
	bpR := oper.BP(sv.Float32("bpR"))
	bpL := oper.BP(sv.Float32("bpL"))
	sv.Assume(bpR > 0 && bpL > 0 && bpR < 100 && bpL < 100)
	sv.Assume(bpR > bpL) // '@' (right assoc) binds tighter than '#' (left assoc)
	ops := []oper.Operator{{Kind: "@", BP: bpR, Fixity: oper.INFIX_R}, {Kind: "#", BP: bpL, Fixity: oper.INFIX_L}}
	toks := lexer.NewLexer(ops).Lex("a @ b # c")
	e := NewParser(ops).Parse(toks)
	bin, ok := e.(*ast.BinaryExpr)
	sv.Assert("is-binary", ok)
	sv.Assert("root-is-#", bin.Name == "#")
}
