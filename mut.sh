#!/bin/sh
# dev aid: mut.sh <seeded id> <prop> [symgo flags]: apply a seeded change to the scratch worktree /root/rdev
# (never /repo), run one check against it without touching evidence/, undo. Not a registered command.
id=$1; prop=$2; shift 2
cd /root/rdev && git checkout -q -- . && git apply /verif/seeded/$id/patch.diff || exit 3
cd /verif && SYMGO_NOEVIDENCE=1 SYMGO_REPO=/root/rdev ./bin/symgo check -prop $prop "$@" 2>&1 | grep -E "^(VIOLATION|INCONCLUSIVE|UNCONFIRMED|KNOWN|property=|harness )" | cut -c1-420
cd /root/rdev && git checkout -q -- . && git status --short
