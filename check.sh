#!/bin/sh
# usage: check.sh <property id> [quick|thorough]   (cwd = /verif)
# Rebuilds nothing by itself: symgo loads /repo's current working tree on
# every run (go/packages + go/ssa), so source edits are always seen.
cd "$(dirname "$0")"
[ -x bin/symgo ] || sh ./setup.sh >/dev/null 2>&1
exec ./bin/symgo check -prop "$1" -tier "${2:-${VERIF_TIER:-quick}}"
