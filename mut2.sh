#!/bin/sh
# dev aid (dev tree): like mut.sh but uses /root/vdev and /root/rdev2
id=$1; prop=$2; shift 2
cd /root/rdev2 && git checkout -q -- . && git apply /verif/seeded/$id/patch.diff || exit 3
cd /root/vdev && SYMGO_VERIF=/root/vdev SYMGO_NOEVIDENCE=1 SYMGO_REPO=/root/rdev2 ./bin/symgo check -prop $prop "$@" 2>&1 | grep -E "^(VIOLATION|INCONCLUSIVE|UNCONFIRMED|KNOWN|property=|harness )" | cut -c1-420
cd /root/rdev2 && git checkout -q -- . && git status --short
