#!/usr/bin/env python3
# Regenerates MANIFEST.json from the table below (claimed properties, notes, N/A reasons).
import json
props=[json.loads(l) for l in open('/verif/properties.jsonl')]
CLAIMED = {
 'C09': ("inputs of 1-2 (quick) / 1-3 (thorough) positions, each a symbolic ASCII byte or one of five non-ASCII runes, under five operator tables built to collide (.^. => = ==>, as assert_, :: :=, ?. ?? ...): the real lexer - its regular expressions executed by a symbolic leftmost-first matcher over the compiled regexp/syntax program - either fails with a syntax error or yields tokens that are ordered, non-overlapping, separated by white space only, with Lexeme = text of the index range and exact line/column, longest-match among registered symbolic operators, whole-word keywords/true/false/identifier-like operators, and '.'/'?' never split from a longer operator; 25 literal forms are single tokens in three contexts",
         "input length <= 3 positions; symbolic bytes are ASCII (non-ASCII runes only as the five concrete ones); the symbolic regexp matcher is trusted (validated only by native replay)"),
 'C12': ("through Eval, Compile + Callable, Debug and the raw-environment API: 25 programs that fail syntactically, statically or at run time (index, key, modulo, invalid pattern) with symbolic operands report the failure through the error result and never panic; 12 host values (nil, typed nil, nil pointers inside, unsupported kinds, mixed interface slices, non-string map keys, scalars) x 4 programs and 46 malformed / adversarial source strings never panic",
         "the timing clauses (polynomial compile time, prompt evaluation) are NOT claimed: wall-clock is not a solver property; source strings are a fixed adversarial list, not symbolic bytes (the lexer's regular expressions are native)"),
 'C19': ("closure.DebugCompile against closure.Compile on 24 single-line sources (ASCII and non-ASCII identifiers and strings, lazy branches, failing sub-terms, redundant spaces) x 72 value combinations: same value or failure; the record (read through a verif-tagged accessor) is exactly the reference walker's sequence of (value, column) for the variable / call / member / subscript terms actually evaluated; Render never fails, keeps the source as first line and shows every recorded value",
         "values are concrete (selector-chosen), so this check is path exploration of the real code without solver-decided scalars; multi-line renderings are not exercised"),
 'C20': ("every AND/OR/NOT criteria tree to depth 2 over three leaf kinds, and every condition kind (= <> > >= < <=, IN, BETWEEN, LIKE, IS NULL, column-vs-column, times) with hostile string operands (quotes, backslashes, control bytes, non-ASCII, invalid UTF-8, SQL comment text), boundary numbers and bound/unbound names in three contexts: the generated text, read back by an independent reader with standard SQL precedence and backslash-escaped literals, is the criteria tree (up to AND/AND, OR/OR flattening); each string operand is exactly one literal",
         "operand strings come from a pool of 11 hostile strings (not symbolic bytes); depth 2 (quick) / 3 (thorough)"),
 'C15': ("conv.ValOf / TypeOf / TypeEnvOf / ValEnvOf executed from the real SSA over a reflect model built on the engine's typed heap: scalars of every width (symbolic contents) convert to the number/string/bool they hold under their tag names; optional markers, nil and non-nil pointers/slices/maps, times, nested structs, pointers to pointers, arrays, maps with primitive keys; the type is the same for every value of the Go type and equals the reported type; twelve unsupported / inconsistent / boundary inputs give an error or are accepted as stated; environments from two samples of one Go type conform",
         "a fixed catalogue of 4 struct types + containers; slice/map sizes <= 2; reflect itself is modelled (25 functions, DESIGN.md §2.6), validated only by native replay of counterexamples; the depth limit of 100 is not exercised"),
 'C11': ("operand kernels (8/16-bit emit/read, placeholder patching, constant addressing) decided for every non-negative integer: round trip or refusal exactly beyond the width; an independent verifier (complete decode, operand kinds and ranges, argc = arity, call convention = callee laziness, forward in-range jump targets on instruction boundaries, path-independent non-negative stack depth, 1 at return, recursively for deferred-argument bodies) accepts the bytecode of 99 template programs and of wide/deep programs around the 42-slot, 255 and 65535 boundaries",
         "programs from the template families only; widths 41-543 in the quick tier, up to 65536 in the thorough tier; 'at most one step per instruction' follows from forward-only jumps and is not measured"),
 'C05': ("an independent reference checker (the rules of the statement) agrees with types.Check on acceptance and inferred type for 62 one-step programs (every node kind, well and ill typed) over the type catalogue, children of equal types with permuted fields, and four registration orders of extra mono/poly overloads",
         "one node over identifier children (compositionality assumed for nesting); ⊥-typed arguments against non-variable positions not dictated; catalogue TC1/TC2"),
 'C06': ("25 programs with effect-recording and failing host functions in every operand position of if / ?: / && / || / a user lazy function / nested lazy calls / strict calls, method calls, literals, subscripts and dynamic calls: on every back end the recorded invocation sequence equals the dictated one for both values of every condition; guarded partial operations never fail for any operand",
         "nesting depth <= 2; dynamic calls of lazy function values are covered under C03"),
 'C07': ("through the public facade: compile probe(x) against {x: T, y: num}; run on environments mutated by seven selectors (same type, permuted fields at every depth, other catalogue type, missing name, extra names, wrong type for an unused name): accepted iff every compile-time name is bound to an equal type; rejection returns an error and evaluates nothing",
         "raw *val.Env / *types.Env environments only; host data through conv (reflect) not covered"),
 'C10': ("every sugar form nested in every operand position of every node kind (11 kernels x 20 contexts, with and without redundant parentheses): the desugared tree is exactly the call tree a reference desugarer gives, contains only core forms, is a fixed point, and the original is untouched; sugared programs and their explicit AST twins have equal types and values (or fail alike) on all back ends",
         "depth <= 2 nesting; semantic half over the operand-level program table"),
 'C16': ("every built-in program with one operand made optional is rejected at compile time unless the reference rules put that operand in a type-variable position; ten accepted programs over optionals nested in lists, maps and objects never fail for present/absent payloads on all back ends; get(optional, default) is payload-or-default for every double",
         "host nil pointers/slices/maps through conv not covered (no reflect model)"),
 'C17': ("Equals coincides with structural identity, is reflexive, symmetric (all pairs) and transitive (all triples) over types of depth <= 1 with two shared type variables and both field orders; a successful Unify makes both sides equal under its substitution and passes the occurs check; pattern vs variable-free type unifies iff a reference matcher finds an instantiation",
         "depth 1 in the quick tier (418k pairs/triples), depth 2 in the thorough tier; tuples only outermost; ⊥ only in the equality law"),
 'C01': ("one inductive step per node kind (list/map/object literals, member, subscript, polymorphic and dynamic calls, ==, string, union) over children of every catalogue type and of equal types with permuted fields: every back end's result is well typed at the inferred type, components included, and no variant access is mis-typed (the engine checks every unsafe variant cast); field selection through every container and call form returns the field of that name for all four field-order combinations of static types and run-time values",
         "catalogue TC1 (14 types; 26 in the thorough tier), container sizes <= 1, numbers from a concrete pool in the structural step; the lifting from one step to all programs assumes the compositionality of Check/compile"),
 'C08': ("two- and three-operator inputs over user operators whose binding powers are symbolic float32 values (solver chooses orderings, fractional gaps, powers below 1) and whose fixity is any of left/right/non-associative/prefix/postfix parse to the tree the declarations dictate; a non-associative operator never chains in four contexts; 28 documented built-in forms parse as documented, 20 malformed inputs are rejected with a syntax error; every node's span re-parses to that node",
         "tables of 1-2 user operators plus optionally the built-ins; expression depth <= 3; mixed associativity at equal power is not dictated (assumed away); no random token sequences yet"),
 'C13': ("text of string(...) is the same for every Go map iteration order (order is a symbolic schedule); evaluation writes nothing to stdout except through print; every history of <= 3 compile/invoke steps that reuses one *types.Env and one *val.Env gives the fresh-engine result, on all four back ends, through the public facade",
         "maps of 2 (quick) / 3 (thorough) entries; histories of length 3 over two expressions; host values through conv not covered (no reflect model)"),
 'C18': ("distinct finite doubles of any magnitude never render alike, never collide as map keys or set elements (solver over all pairs); ==, rendering, key identity, isset and union/intersect/diff agree on pairs of catalogue values with permuted fields; rendering is invariant under field order, insertion order and every map iteration order; shared sub-values render like unshared ones",
         "tolerance law for two numbers (identical or > 1e-9 apart) only in the thorough tier; structural pairs over 11 types, sizes <= 1 (quick) with numbers from a concrete pool; NaN and ±Inf outside the equality laws"),
 'C02': ("xs[i], m[k], a % b decided for every double operand on all four back ends (fail exactly when the operation is undefined, never an internal fault); 17 total built-in programs never fail for any operand",
         "lists/maps of <= 2-3 entries, catalogue strings; wide literals and deep nesting not yet covered"),
 'C03': ("every built-in overload, subscript/member access and literal form evaluated on all four back ends in one symbolic path: all succeed with structurally identical values or all fail",
         "operand-level programs over identifier operands (lists <= 2, maps <= 2 entries); time subtraction on concrete instants; strtotime and ^ through uninterpreted stubs (equal across back ends by construction)"),
 'C04': ("each documented operator/built-in compared with a reference semantics written from README on every back end, for every double / bool / catalogue string / instant operand",
         "value of ^ and strtotime not covered (math.Pow / C library stubs); time difference on concrete instants only; set functions covered by C18's harness"),
}
NA = {
 'C14': "quantifies over goroutine schedules under the race detector; symgo is a sequential executor with no model of goroutines, sync or the Go memory model, and the racy state (types.TyVar counter) has no sequentially observable effect (DESIGN.md §6)",
}
checks=[]
for p in props:
    if p['id'] in CLAIMED:
        text,outside=CLAIMED[p['id']]
        checks.append({
          "property_id":p['id'],
          "quick_cmd":"./check.sh %s quick"%p['id'],
          "thorough_cmd":"./check.sh %s thorough"%p['id'],
          "evidence_file":"evidence/%s.json"%p['id'],
          "replay_cmd_template":"./bin/symgo replay {path}",
          "engine":"symgo",
          "level_claimed":{"category":"model_checking","text":"bounded symbolic execution of the real Go SSA of /repo; an SMT solver decides every assertion over all values of the symbolic inputs on every explored path. "+text,"design_ref":"DESIGN.md §5 "+p['id']},
          "level_note":"trusted: symgo's SSA interpreter and stdlib intrinsics, z3 4.8.12. Outside the bound: "+outside+". Inconclusive runs (fuel, unknown, unsupported) exit 2, never 0.",
          "technique":"solver-based bounded symbolic execution of go/ssa (own executor symgo + z3 -in); counterexamples replayed natively via go test -overlay"
        })
na=[]
for p in props:
    if p['id'] in CLAIMED: continue
    na.append({"property_id":p['id'],"reason":NA.get(p['id'],"check not built yet (DESIGN.md §8 build order); nothing is claimed for it")})
m={"version":1,"setup_cmd":"sh ./setup.sh",
 "hooks":{"guard":"verif","enable":"harness and hook files (//go:build verif) live under /verif/harness and are injected with go/packages Overlay (engine) and go test -overlay (native replay); nothing is written under /repo","baseline_off_cmd":"sh ./baseline_off.sh","source_commits":[],"add_only":True},
 "engines":[{"name":"symgo","path":"symgo/","serves_properties":sorted(CLAIMED),"kind_free_text":"symbolic executor for Go SSA (golang.org/x/tools v0.29.0 go/ssa) with z3 over a pipe; harnesses in harness/, injected by overlay; native replay of every counterexample"}],
 "checks":checks,"not_applicable":na,
 "notes":"exit 0 = held on everything explored; exit 1 + VIOLATION line = counterexample replayed natively; exit 2 + INCONCLUSIVE = bound exhausted / solver unknown / unsupported construct / unreplayed counterexample (never reported as success). Repairs of genuine defects are the 'fix:' commits in /repo, listed in known_findings.json."}
json.dump(m,open('/verif/MANIFEST.json','w'),indent=1)
print("claimed:",sorted(CLAIMED))
