#!/bin/sh
# Translator validation: goghcrow/yae's own test functions are executed inside the symbolic executor
# (concretely). Every test passes natively, so a test that fails here is an engine bug. Writes
# selftest/report.json. Exit 0 = no test failed inside the engine.
cd "$(dirname "$0")"
[ -x bin/symgo ] || sh ./setup.sh >/dev/null 2>&1
exec ./bin/symgo selftest -pkgs ./test,./test/example,./ext,./types,./vm,./fun "$@"
