#!/bin/sh
# dev aid: apply an arbitrary diff to /root/rdev2 and run one property's quick check from /root/vdev
diff=$1; prop=$2; shift 2
cd /root/rdev2 && git checkout -q -- . && git apply $diff || exit 3
cd /root/vdev && SYMGO_VERIF=/root/vdev SYMGO_NOEVIDENCE=1 SYMGO_REPO=/root/rdev2 ./bin/symgo check -prop $prop "$@" 2>&1 | grep -E "^(VIOLATION|INCONCLUSIVE|UNCONFIRMED|KNOWN|property=|harness )" | cut -c1-420
cd /root/rdev2 && git checkout -q -- . && git clean -fdq && git status --short
